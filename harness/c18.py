# C18 — sweeps, blocks and control-flow graphs partition the code.
# Static: coq/Properties/C18.v (iterblocks partitions the stream into maximal runs; block.cut laws; for every insertion
# order of maximal-run blocks the graph support contains exactly the inserted instructions, each in one block).
# Tie: streams of real decoded instructions (x86, x64, SPARC, MIPS, SH2 with delay slots, RISC-V, ARM) swept by lsweep:
# sequence / iterblocks / getblock / block.cut / slicing and graph.support after insertion histories, against the model
# (vm_compute) and against set-of-instructions bookkeeping, incl. fall-through edges at splits.
import itertools
import json
import random

import common
import isa
from common import clist

LEVEL = "proof"
CPUS = ["amoco.arch.x86.cpu_x86", "amoco.arch.x64.cpu_x64", "amoco.arch.sparc.cpu_v8", "amoco.arch.mips.cpu_r3000",
        "amoco.arch.superh.cpu_sh2", "amoco.arch.riscv.cpu_rv32i", "amoco.arch.arm.cpu_armv7"]
_pools = {}


def pool_for(cpuname, seed):
    """valid encodings found by decoding random bytes: [(bytes, is control flow, delayed)]"""
    if cpuname in _pools:
        return _pools[cpuname]
    import importlib
    from amoco.arch.core import type_control_flow
    cpu = importlib.import_module(cpuname)
    rng = random.Random(seed)
    plain, cf, delayed = [], [], []
    tries = 0
    while tries < 6000 and (len(plain) < 40 or len(cf) < 12):
        tries += 1
        b = rng.randbytes(15)
        try:
            i = cpu.disassemble(b)
        except Exception:
            continue
        if i is None or i.length <= 0:
            continue
        enc = bytes(i.bytes)
        # the encoding must decode to itself when followed by other bytes
        try:
            j = cpu.disassemble(enc + b"\x00" * 15)
        except Exception:
            continue
        if j is None or bytes(j.bytes) != enc:
            continue
        d = bool(i.misc.get("delayed", False))
        c = i.type == type_control_flow
        (delayed if d else cf if c else plain).append((enc, c, d))
    _pools[cpuname] = (cpu, plain[:60], cf[:20], delayed[:10])
    return _pools[cpuname]


def gen_stream(rng, cpuname, seed):
    cpu, plain, cf, delayed = pool_for(cpuname, seed)
    if not plain or not cf:
        return None
    s = []
    for _ in range(rng.randrange(3, 16)):
        c = rng.random()
        if c < 0.22:
            s.append(rng.choice(cf))
        elif c < 0.32 and delayed:
            s.append(rng.choice(delayed))
        else:
            s.append(rng.choice(plain))
    s.append(rng.choice(cf))
    if s[-1][2]:
        s.append(rng.choice(plain))
    s.append(rng.choice(plain))      # trailing open block
    return cpu, s


def model_ends(s):
    """block-end flags by the rule of the property statement (control flow, or the delay slot of a delayed one)"""
    ends, delay = [], False
    for enc, c, d in s:
        if d:
            ends.append(False)
            delay = True
        elif c or delay:
            ends.append(True)
            delay = False
        else:
            ends.append(False)
    return ends


def instr_lit(x):
    return "{| i_len := %d; i_cf := %s; i_delayed := %s |}" % (len(x[0]), "true" if x[1] else "false", "true" if x[2] else "false")


def check(run):
    quick = run.tier == "quick"
    isa.load_all()
    from amoco.system.core import load_program
    from amoco.sa.lsweep import lsweep
    from amoco import cfg
    run.cov["rule"] = ("streams of 5-19 decoded instructions built from encodings found by decoding random bytes with the real decoders "
                       "(x86, x64, SPARC, MIPS, SH2, RV32I, ARMv7; control-flow and delayed instructions included), loaded as raw programs; "
                       "sequence / iterblocks / getblock at every aligned start; block.cut and slices at every address; graph insertion "
                       "histories: all permutations of <= 4 blocks and random orders of <= 10; distinct by (cpu, stream, order); "
                       "non-trivial when the history splits or swallows a block")
    run.static_part()
    rng = random.Random(run.seed * 1009 + 18)
    blk_rows, graph_rows, cut_rows, graph_meta = [], [], [], []
    nstream = 140 if quick else 3000
    for it in range(nstream):
        cpuname = CPUS[it % len(CPUS)]
        g = gen_stream(rng, cpuname, run.seed * 31 + 5)
        if g is None:
            run.cov.setdefault("cpus_without_pool", []).append(cpuname)
            continue
        cpu, s = g
        raw = b"".join(x[0] for x in s)
        run.hist("cpu", cpuname.split(".")[-1])
        starts = [0]
        for x in s:
            starts.append(starts[-1] + len(x[0]))
        rep = {"cpu": cpuname, "stream": [x[0].hex() for x in s]}
        try:
            task = load_program(raw, cpu)
            z = lsweep(task)
        except Exception as x:
            run.violation("load|" + type(x).__name__, "raw program could not be loaded: %r" % (x,), rep)
            continue
        # ---- sequence
        seq = []
        try:
            for i in z.sequence(0):
                seq.append(i)
                if len(seq) >= len(s):
                    break
        except Exception as x:
            run.violation("sequence|raised|" + type(x).__name__, "lsweep.sequence raised %r after %d instructions" % (x, len(seq)), rep)
            continue
        run.count(("seq", cpuname, raw), nontrivial=True)
        got = [(i.address.value, i.length, bytes(i.bytes)) for i in seq]
        want = [(starts[k], len(s[k][0]), s[k][0]) for k in range(len(s))]
        if got != want:
            k = next((k for k in range(min(len(got), len(want))) if got[k] != want[k]), min(len(got), len(want)))
            run.violation("sequence|consecutive", "instruction %d of the sweep is %r, the stream has %r there" % (k, got[k] if k < len(got) else None,
                                                                                                                  want[k] if k < len(want) else None), rep)
            continue
        # ---- blocks
        ends = model_ends(s)
        try:
            blocks = []
            for b in z.iterblocks(0):
                blocks.append(b)
                if sum(len(x.instr) for x in blocks) >= len(s):
                    break
        except Exception as x:
            run.violation("iterblocks|raised|" + type(x).__name__, "iterblocks raised %r" % (x,), rep)
            continue
        sizes = [len(b.instr) for b in blocks]
        blk_rows.append("(%s, %s)" % (clist(map(instr_lit, s)), clist(map(str, sizes))))
        pos = 0
        okb = True
        for b in blocks:
            n = len(b.instr)
            a0, a1 = starts[pos], starts[pos + n]
            if (b.address.value, b.support[0].value, b.support[1].value, b.length, b.raw()) != (a0, a0, a1, a1 - a0, raw[a0:a1]):
                run.violation("block|support-raw", "block at %#x: support %s length %d raw %s; its instructions span [%#x,%#x)" % (
                    a0, b.support, b.length, b.raw().hex(), a0, a1), rep)
                okb = False
            want_end = all(not e for e in ends[pos:pos + n - 1]) and (ends[pos + n - 1] or pos + n == len(s))
            if not want_end:
                run.violation("block|maximal-run", "block of %d instructions at index %d is not a maximal run (end flags %s)" % (n, pos, ends[pos:pos + n]), rep)
                okb = False
            pos += n
        if not okb:
            continue
        rend = {}
        e = len(s)
        for k in range(len(s) - 1, -1, -1):
            if ends[k]:
                e = k + 1
            rend[k] = e
        # starts that are the delay slot of the previous instruction are left out: a sweep started there does not know
        # about the pending branch, so the block it yields is not a run of the stream swept from its beginning
        idxs = [k for k in range(len(s)) if k == 0 or not s[k - 1][2]]
        # getblock at every aligned start
        for k in idxs:
            b = z.getblock(starts[k])
            if b is None or [i.address.value for i in b.instr] != starts[k:rend[k]]:
                run.violation("getblock", "getblock(%#x) does not return the maximal run from there (%r)" % (starts[k], b), rep)
                break
        # ---- cut / slices
        k = rng.choice(idxs)
        b = z.getblock(starts[k])
        lens = [i.length for i in b.instr]
        base = starts[k]
        for a in sorted(set([rng.randrange(base, base + sum(lens) + 2) for _ in range(4)] + [starts[min(k + 1, rend[k] - 1)]])):
            b2 = z.getblock(starts[k])
            addr = cpu.cst(a, b2.address.size)
            if rng.random() < 0.6:
                # the block has been looked at before it is cut (bytes, extent, comparisons): part of its history
                b2.raw(), b2.length, b2.support, b2 == b, len(b2.instr), str(b2.address)
            try:
                removed = b2.cut(addr)
            except Exception as x:
                run.violation("cut|raised|" + type(x).__name__, "block.cut raised %r" % (x,), dict(rep, address=a))
                continue
            rest = [i.length for i in b2.instr]
            cut_rows.append("(%d, %s, %d, (%s, %d))" % (base, clist(map(str, lens)), a, clist(map(str, rest)), removed))
            if b2.instr and b2.raw() != raw[base:base + sum(rest)]:
                run.violation("cut|raw", "after cut(%#x) the block's bytes are not the prefix of the original block" % a, dict(rep, address=a))
            elif b2.instr and (b2.address.value, b2.support[0].value, b2.support[1].value, b2.length) != (base, base, base + sum(rest), sum(rest)):
                run.violation("cut|extent", "after cut(%#x) the block's address/support/length %r do not describe its instructions" % (
                    a, (b2.address.value, b2.support[0].value, b2.support[1].value, b2.length)), dict(rep, address=a))
            elif b2.instr and removed > 0 and (b2 == b or not (b2 == z.getblock(starts[k])[0:sum(rest)])):
                run.violation("cut|compare", "after cut(%#x) the block still compares equal to the uncut block (or differs from the same prefix taken afresh)" % a, dict(rep, address=a))
            # slice [0:offset]
            off = a - base
            if 0 < off <= sum(lens):
                b3 = z.getblock(starts[k])
                try:
                    sl = b3[0:off]
                except Exception as x:
                    run.violation("slice|raised|" + type(x).__name__, "block[0:%d] raised %r" % (off, x), dict(rep, address=a))
                    continue
                at_boundary = (base + off) in starts
                if at_boundary and (sl is None or sl.raw() != raw[base:base + off]):
                    run.violation("slice|boundary", "block[0:%d] at an instruction boundary is %r" % (off, sl), dict(rep, address=a))
                if not at_boundary and sl is not None:
                    run.violation("slice|inside", "block[0:%d] inside an instruction returned a block" % off, dict(rep, address=a))
        # ---- graph insertion histories
        hist = []
        sub = rng.sample(idxs, min(len(idxs), rng.randrange(2, 5)))
        perms = list(itertools.permutations(sub))
        rng.shuffle(perms)
        hist += perms[:6 if quick else 24]
        for _ in range(2 if quick else 6):
            hist.append(tuple(rng.sample(idxs, min(len(idxs), rng.randrange(2, 11)))))
        for order in hist:
            G = cfg.graph()
            rep2 = dict(rep, order=list(order))
            try:
                for k in order:
                    G.add_vertex(cfg.node(z.getblock(starts[k])))
            except Exception as x:
                run.violation("graph|raised|" + type(x).__name__, "add_vertex raised %r for insertion order %s" % (x, list(order)), rep2)
                continue
            sup = []
            instrs = []
            bad = None
            for mo in G.support._map:
                n = mo.data.val
                a = n.data.address.value
                if mo.vaddr.value != a or a not in starts:
                    bad = "support entry at %#x holds a block starting at %#x" % (mo.vaddr.value, a)
                    break
                k0 = starts.index(a)
                sup.append((k0, k0 + len(n.data.instr)))
                ln = sum(i.length for i in n.data.instr)
                if (n.data.raw(), n.data.length, n.data.support[1].value) != (raw[a:a + ln], ln, a + ln):
                    bad = "the support block at %#x reports bytes/length/extent (%s, %d, %#x) but holds the instructions of [%#x,%#x)" % (
                        a, n.data.raw().hex(), n.data.length, n.data.support[1].value, a, a + ln)
                    break
                instrs += [i.address.value for i in n.data.instr]
            want_instrs = sorted({starts[j] for k in order for j in range(k, rend[k])})
            nontriv = len(sup) != len(set(order)) or any(rend[a] != b for a, b in sup)
            run.count(("graph", cpuname, raw, order), nontrivial=nontriv)
            if bad is None and sorted(instrs) != want_instrs:
                bad = "support holds instructions %s, the inserted blocks contain %s" % (sorted(instrs), want_instrs)
            if bad is None and len(instrs) != len(set(instrs)):
                bad = "an instruction appears in two support blocks"
            if bad:
                run.violation("graph|partition", bad + " (order %s)" % (list(order),), rep2)
                continue
            nodes = [mo.data.val for mo in G.support._map]
            for n1, n2, (a1, b1), (a2, b2) in zip(nodes, nodes[1:], sup, sup[1:]):
                if b1 == a2 and rend[a1] == rend[a2] and n2 not in n1.N(+1):
                    run.violation("graph|fall-through-edge", "blocks [%d,%d) and [%d,%d) of one run are adjacent in the support without a fall-through edge (order %s)" % (
                        a1, b1, a2, b2, list(order)), rep2)
                    break
            graph_rows.append("(%s, %s, %s)" % (clist(map(instr_lit, s)), clist(map(str, order)), clist(["(%d, %d)" % x for x in sup])))
            graph_meta.append(rep2)
            if run.cov["evaluations"] % 400 == 1:
                run.sample({"cpu": cpuname, "lengths": [len(x[0]) for x in s], "ends": ends, "order": list(order), "support": sup}, 3)
    hdr = "From Coq Require Import Arith List.\nImport ListNotations.\nRequire Import Amoco.C18.Model.\n"
    texts = []

    def shard(name, rows, typ, fn, size):
        for i in range(0, len(rows), size):
            texts.append(("%s_%03d" % (name, i // size), hdr + "Definition cases : list (%s) := [\n%s\n].\nEval vm_compute in (bad_from %s 0 cases).\n" % (
                typ, ";\n".join(rows[i:i + size]), fn), name, i))
    shard("blocks", blk_rows, "list instr * list nat", "check_blocks", 300)
    shard("graph", graph_rows, "list instr * list nat * list (nat * nat)", "check_graph", 300)
    shard("cut", cut_rows, "nat * list nat * nat * (list nat * nat)", "check_cut", 400)
    res = common.coq_eval_many(run.work / "cases", [(n, t) for n, t, _, _ in texts])
    ok = 0
    for n, t, kind, base in texts:
        rc, out = res[n]
        lists = common.parse_nat_list(out)
        if rc != 0 or len(lists) != 1:
            run.violation("model-eval|" + kind, "%s model evaluation failed" % kind, {"theorem_or_correspondence": "Amoco.C18.Model.check_%s (%s)" % (kind, n), "output": out[-600:]},
                          found_input=False)
            continue
        ok += t.count(";\n(") + 1
        for k in lists[0][:2]:
            rep = {"theorem_or_correspondence": "Amoco.C18.Model.check_" + kind, "case_index": base + k}
            if kind == "graph":
                rep.update(graph_meta[base + k])
            run.violation(kind + "|model-impl-correspondence", "%s: the implementation's result differs from the model's" % kind, rep, found_input=(kind == "graph"))
    run.cov["model_cases"] = ok
    run.cov["traces_validated_against_impl"] = run.cov.get("traces_validated_against_impl", 0) + ok
    run.cov["trusted_base"] += ["harness/c18.py: stream construction from decoded encodings, block-end rule (model_ends), instruction bookkeeping"]
    run.assumptions += ["blocks that start in the delay slot of the preceding instruction are not generated (a sweep started there ignores the pending branch)",
                        "blocks inserted into the graph are maximal runs of one stream (the property's domain); overlay blocks (starts inside an instruction) are not generated",
                        "function nodes, edges other than fall-through edges, and the orphan vertices left in the graph by a swallow are not part of the property"]
    return run


def replay(path):
    obj = json.load(open(path))["replay"]
    isa.load_all()
    import importlib
    from amoco.system.core import load_program
    from amoco.sa.lsweep import lsweep
    from amoco import cfg
    cpu = importlib.import_module(obj["cpu"])
    encs = [bytes.fromhex(h) for h in obj["stream"]]
    raw = b"".join(encs)
    z = lsweep(load_program(raw, cpu))
    starts = [0]
    for e in encs:
        starts.append(starts[-1] + len(e))
    G = cfg.graph()
    for k in obj.get("order", []):
        G.add_vertex(cfg.node(z.getblock(starts[k])))
    print([(mo.vaddr.value, [i.address.value for i in mo.data.val.data.instr]) for mo in G.support._map])
    return 1
