#!/venv/bin/python
# Maintainer tool (never run by a check): runs a check over several seeds / tiers on the CURRENT tree, collects which
# "known" entries of known_findings.json were re-observed (evidence.known_findings_matched) and lists those that were not.
# With --apply the entries that were never re-observed are removed (they no longer fail, e.g. after a fix: commit).
# Usage: harness/prune_findings.py C17 [--apply] quick:0 quick:1 ... thorough:0
import json, os, subprocess, sys
HERE = os.path.dirname(os.path.dirname(os.path.abspath(__file__)))
args = sys.argv[1:]
pid = args.pop(0)
apply = "--apply" in args
runs = [a.split(":") for a in args if a != "--apply"]
seen = set()
unlisted = []
for tier, seed in runs:
    env = dict(os.environ, VERIF_SEED=seed)
    p = subprocess.run([os.path.join(HERE, "check"), pid, "--tier", tier], env=env, cwd=HERE, stdout=subprocess.PIPE, stderr=subprocess.DEVNULL, text=True)
    ev = json.load(open(os.path.join(HERE, "evidence", pid + ".json")))
    seen |= set(ev.get("known_findings_matched", []))
    v = [l for l in p.stdout.splitlines() if l.startswith("VIOLATION")]
    unlisted += v
    print(tier, seed, "exit", p.returncode, "matched so far", len(seen), "unlisted violations", len(v), flush=True)
kfp = os.path.join(HERE, "known_findings.json")
kf = json.load(open(kfp))
known = [f for f in kf["findings"] if f["property"] == pid and f["status"] == "known"]
stale = [f for f in known if f["key"] not in seen]
print("known", len(known), "re-observed", len(known) - len(stale), "never re-observed", len(stale))
for f in stale:
    print("  STALE", f["key"])
for l in unlisted[:20]:
    print("  UNLISTED", l[:200])
if apply and stale:
    kf["findings"] = [f for f in kf["findings"] if not (f["property"] == pid and f["status"] == "known" and f["key"] not in seen)]
    json.dump(kf, open(kfp, "w"), indent=1)
    print("removed", len(stale))
