# x86-64 instruction generator for C06: user-mode general-purpose integer instructions in all operand sizes, with REX / 66 /
# 67 prefixes, register and memory operand forms and immediates.  Each generated case carries the mask of the status flags
# that the architecture defines for it (Intel SDM vol. 2, "Flags Affected"); undefined flags are not compared.
import random

CF, PF, AF, ZF, SF, OF = 1, 4, 0x10, 0x40, 0x80, 0x800
ALL = CF | PF | AF | ZF | SF | OF
LOGIC = CF | PF | ZF | SF | OF          # AF undefined
PTR_REGS = [3, 6, 7, 11, 14, 15]        # rbx rsi rdi r11 r14 r15 hold pointers into the scratch buffer
IDX_REGS = [1, 2, 9, 10]
ABS_SCRATCH = 0                         # absolute address inside the scratch buffer (set by the harness)                # rcx rdx r9 r10 hold small index values when used as SIB index


class Case:
    def __init__(self, name, code, mask=0, opsize=32, **kw):
        self.name, self.code, self.mask, self.opsize = name, code, mask, opsize
        self.mem = kw.get("mem", False)
        self.idx = kw.get("idx")             # SIB index register (or None)
        self.setregs = kw.get("setregs")     # register values the memory operand needs (SIB sweep), or None
        self.kw = kw


FORCED = None        # when set: function (rng, opsize, reg) -> (rex bits, modrm+sib+disp bytes, info) used instead of a random operand


def modrm(rng, opsize, reg=None, allow_mem=True, rex_w=False, force66=False):
    """returns (prefix bytes without REX, rex bits dict, modrm+sib+disp bytes, info)"""
    if FORCED is not None:
        return FORCED(rng, opsize, reg)
    info = {"mem": False, "idx": None}
    rexr = rexx = rexb = 0
    use_rex_regs = rng.random() < 0.35
    if reg is None:
        reg = rng.randrange(8)
        if use_rex_regs and rng.random() < 0.5:
            rexr = 1
    mem = allow_mem and rng.random() < 0.45
    out = b""
    if mem:
        info["mem"] = True
        mod = rng.choice([0, 1, 1, 2])
        if rng.random() < 0.3:
            # SIB
            base = rng.choice([3, 6, 7])
            if rng.random() < 0.4:
                rexb = 1                     # r11 r14 r15
            index = rng.choice([1, 2, 4])    # rcx, rdx, none
            if rng.random() < 0.4:
                rexx = 1                     # r9 r10, and r12 for index field 100 (only without REX.X does 100 mean "no index")
            scale = rng.randrange(4)
            info["idx"] = None if index == 4 and not rexx else (index + 8 * rexx)
            if index == 4 and rexx:
                info["idx"] = 12             # r12 as index
            if ABS_SCRATCH and rng.random() < 0.25:
                # no base register: mod=00 with SIB.base=101 is disp32 (+ index*scale), whatever REX.B says
                mod, base = 0, 5
                out = bytes([((reg & 7) << 3) | 4, (scale << 6) | (index << 3) | base]) + (ABS_SCRATCH + rng.randrange(0, 16)).to_bytes(4, "little")
                info["reg"] = (reg & 7) + 8 * rexr
                return {"r": rexr, "x": rexx, "b": rexb}, out, info
            out = bytes([(mod << 6) | ((reg & 7) << 3) | 4, (scale << 6) | (index << 3) | base])
        else:
            rm = rng.choice([3, 6, 7])
            if rng.random() < 0.4:
                rexb = 1
            out = bytes([(mod << 6) | ((reg & 7) << 3) | rm])
        if mod == 1:
            out += bytes([rng.choice([0, 1, 8, 0x10, 0x1F, 0xF8, 0xF0, 0xE0, 0xFF])])
        elif mod == 2:
            out += rng.choice([0, 1, 16, 0x1F, 0xFFFFFFF0, 0xFFFFFFE0, 0xFFFFFFFF]).to_bytes(4, "little")
    else:
        rm = rng.randrange(8)
        if use_rex_regs and rng.random() < 0.5:
            rexb = 1
        out = bytes([0xC0 | ((reg & 7) << 3) | rm])
        info["rm"] = rm + 8 * rexb
    info["reg"] = (reg & 7) + 8 * rexr
    return {"r": rexr, "x": rexx, "b": rexb}, out, info


def bad_regs(info, opsize, rex_present, reg_is_operand=True):
    """rsp (or spl / ah-forms mixed with REX) must not be touched"""
    regs = []
    if reg_is_operand:
        regs.append(info["reg"])
    if not info["mem"]:
        regs.append(info["rm"])
    for r in regs:
        if r == 4 and (opsize != 8 or rex_present):
            return True
    return False


def build(rng, opc, opsize, reg=None, allow_mem=True, imm=0, reg_is_operand=True, lock=False):
    """assembles prefixes + opcode + modrm (+imm); returns (bytes, info) or None"""
    for _ in range(20):
        rex, mrm, info = modrm(rng, opsize, reg, allow_mem)
        w = 1 if opsize == 64 else 0
        rexbyte = 0x40 | (w << 3) | (rex["r"] << 2) | (rex["x"] << 1) | rex["b"]
        rex_present = rexbyte != 0x40 or rng.random() < 0.08
        if bad_regs(info, opsize, rex_present, reg_is_operand):
            continue
        pre = b""
        if info.get("a67") is not None:
            pre += b"\x67" if info["a67"] else b""
        elif info["mem"] and rng.random() < 0.1:
            pre += b"\x67"
        if opsize == 16:
            pre += b"\x66"
        code = pre + (bytes([rexbyte]) if rex_present else b"") + opc + mrm
        if imm:
            n = {8: 1, 16: 2, 32: 4, 64: 4}[imm]
            code += rng.choice([0, 1, (1 << (8 * n)) - 1, 1 << (8 * n - 1), (1 << (8 * n - 1)) - 1, rng.getrandbits(8 * n)]).to_bytes(n, "little")
        if len(code) > 15:
            continue
        return code, info
    return None


def gen_case(rng, k=None):
    """k (0..1) selects the instruction class; random when None"""
    opsize = rng.choice([8, 16, 32, 32, 64, 64])
    k = rng.random() if k is None else k
    w = 0 if opsize == 8 else 1
    if k < 0.22:
        # ALU r/m,r  and r,r/m
        op = rng.randrange(8)
        name = ["ADD", "OR", "ADC", "SBB", "AND", "SUB", "XOR", "CMP"][op]
        d = rng.randrange(2)
        r = build(rng, bytes([(op << 3) | (d << 1) | w]), opsize)
        mask = ALL if name in ("ADD", "ADC", "SBB", "SUB", "CMP") else LOGIC
    elif k < 0.34:
        op = rng.randrange(8)
        name = ["ADD", "OR", "ADC", "SBB", "AND", "SUB", "XOR", "CMP"][op]
        form = rng.choice([0x80, 0x81, 0x83]) if opsize != 8 else 0x80
        imm = 8 if form in (0x80, 0x83) else min(opsize, 32)
        r = build(rng, bytes([form]), opsize, reg=op, imm=imm, reg_is_operand=False)
        mask = ALL if name in ("ADD", "ADC", "SBB", "SUB", "CMP") else LOGIC
        name += "i"
    elif k < 0.40:
        sub = rng.choice([0, 1])
        name = ["INC", "DEC"][sub]
        r = build(rng, bytes([0xFE | w]), opsize, reg=sub, reg_is_operand=False)
        mask = ALL & ~CF
    elif k < 0.46:
        sub = rng.choice([2, 3])
        name = {2: "NOT", 3: "NEG"}[sub]
        r = build(rng, bytes([0xF6 | w]), opsize, reg=sub, reg_is_operand=False)
        mask = 0 if sub == 2 else ALL
    elif k < 0.50:
        name = "TEST"
        if rng.random() < 0.5:
            r = build(rng, bytes([0x84 | w]), opsize)
        else:
            r = build(rng, bytes([0xF6 | w]), opsize, reg=0, imm=min(opsize, 32), reg_is_operand=False)
        mask = LOGIC
    elif k < 0.58:
        name = "MOV"
        c = rng.random()
        if c < 0.6:
            r = build(rng, bytes([0x88 | (rng.randrange(2) << 1) | w]), opsize)
        else:
            r = build(rng, bytes([0xC6 | w]), opsize, reg=0, imm=min(opsize, 32), reg_is_operand=False)
        mask = 0
    elif k < 0.63:
        src = rng.choice([8, 16])
        if opsize == 8 or (src == 16 and opsize == 16):
            opsize = 32
        sx = rng.random() < 0.5
        name = "MOVSX" if sx else "MOVZX"
        r = build(rng, bytes([0x0F, (0xBE if sx else 0xB6) | (1 if src == 16 else 0)]), opsize)
        if r and not r[1]["mem"] and r[1]["rm"] in (4, 5, 6, 7) and src == 8:
            r = None            # ah..bh / spl forms: keep it simple
        mask = 0
    elif k < 0.66:
        name = "LEA"
        if opsize == 8:
            opsize = 32
        r = None
        for _ in range(10):
            rr = build(rng, b"\x8D", opsize)
            if rr and rr[1]["mem"]:
                r = rr
                break
        mask = 0
    elif k < 0.76:
        sub = rng.choice([0, 1, 2, 3, 4, 5, 7])
        name = ["ROL", "ROR", "RCL", "RCR", "SHL", "SHR", "SAL", "SAR"][sub]
        form = rng.choice([0xC0, 0xD0, 0xD2])
        r = build(rng, bytes([form | w]), opsize, reg=sub, imm=8 if form == 0xC0 else 0, reg_is_operand=False)
        mask = -1            # computed from the count at run time
        if r:
            r[1]["shift"] = (sub, form)
    elif k < 0.80:
        name = "IMUL2"
        if opsize == 8:
            opsize = 32
        r = build(rng, b"\x0F\xAF", opsize)
        mask = CF | OF
    elif k < 0.84:
        cc = rng.randrange(16)
        name = "CMOV%d" % cc
        if opsize == 8:
            opsize = 32
        r = build(rng, bytes([0x0F, 0x40 | cc]), opsize)
        mask = 0
    elif k < 0.88:
        cc = rng.randrange(16)
        name = "SET%d" % cc
        opsize = 8
        r = build(rng, bytes([0x0F, 0x90 | cc]), 8, reg=0, reg_is_operand=False)
        mask = 0
    elif k < 0.91:
        name = "XCHG"
        r = build(rng, bytes([0x86 | w]), opsize)
        mask = 0
    elif k < 0.94:
        name = "XADD"
        r = build(rng, bytes([0x0F, 0xC0 | w]), opsize)
        mask = ALL
    elif k < 0.96:
        name = rng.choice(["CBW", "CWD", "CLC", "STC", "CMC", "SAHF", "LAHF", "BSWAP"])
        if opsize == 8:
            opsize = 32
        pre = (b"\x66" if opsize == 16 else b"") + (b"\x48" if opsize == 64 else b"")
        if name == "BSWAP":
            if opsize == 16:
                opsize, pre = 32, b""
            reg = rng.choice([0, 1, 2, 3, 5, 6, 7])
            code = pre + bytes([0x0F, 0xC8 | reg])
        else:
            code = {"CBW": pre + b"\x98", "CWD": pre + b"\x99", "CLC": b"\xF8", "STC": b"\xF9", "CMC": b"\xF5", "SAHF": b"\x9E", "LAHF": b"\x9F"}[name]
        mask = {"CLC": CF, "STC": CF, "CMC": CF, "SAHF": CF | PF | AF | ZF | SF}.get(name, 0)
        return Case(name, code, mask, opsize)
    else:
        name = "MOVSXD"
        opsize = 64
        r = build(rng, b"\x63", 64)
        mask = 0
    if r is None:
        return None
    code, info = r
    c = Case(name, code, mask, opsize, **info)
    return c


def jcc_case(rng):
    cc = rng.randrange(16)
    if rng.random() < 0.5:
        d = rng.randrange(256)
        return cc, bytes([0x70 | cc, d]), (d - 256 if d > 127 else d)
    d = rng.getrandbits(32)
    return cc, bytes([0x0F, 0x80 | cc]) + d.to_bytes(4, "little"), (d - (1 << 32) if d >> 31 else d)


# ------------------------------------------------------------------------------------------------ SIB sweep
# Memory operands with a SIB byte, systematically: every REX.X / REX.B combination x every index field (including 100b,
# which is "no index" without REX.X and r12 with it) x every scale x mod 00/01/10 x every base field (including 101b: no
# base + disp32 under mod 00, rbp / r13 otherwise; 100b with REX.B: r12), with and without a 67 address-size prefix, for
# LEA, loads, stores and read-modify-write instructions.  The register values are chosen per case so that
#   - the index register holds a non-zero value (small, negative, boundary or random 64-bit) different from every other
#     register, so that dropping / mis-scaling / mis-selecting it changes the effective address;
#   - the base register (or the disp32 of the base-less form) compensates, modulo 2^64 (2^32 under 67), so that the
#     effective address falls inside the window of the scratch buffer that the harness fills, maps and compares;
#   - under a 67 prefix the upper halves of the address registers hold garbage that must be ignored.
# Base rsp is not generated (the native runner keeps the real stack pointer).
EA_LO, EA_HI = -56, 79          # effective address relative to ABS_SCRATCH: accesses of up to 8 bytes stay inside the window
SWEEP_CLASSES = [0.10, 0.10, 0.30, 0.37, 0.43, 0.48, 0.55, 0.55, 0.60, 0.65, 0.65, 0.65, 0.70, 0.78, 0.82, 0.86, 0.90, 0.97]


def index_value(rng):
    return rng.choice([1, 2, 3, 5, 7, 8, 0x10, 0x11, 0x7F, 0x80, 0xFFFF, 0x7FFFFFFF, 0x80000000, 0xFFFFFFFF, 1 << 32, (1 << 63) - 1, 1 << 63,
                       (1 << 64) - 1, (1 << 64) - 2, (1 << 64) - 8, rng.randrange(1, 32), rng.randrange(1, 32), rng.getrandbits(64) | 1,
                       rng.getrandbits(64) | 2, rng.getrandbits(32) | 1])


def sib_operand(rng, X, B, idxf, basef, mod, scale, a67):
    """operand provider for build(): ModRM/SIB/disp bytes of the given form and the register values it needs; None if the
    form is not generated (base rsp)"""
    breg = None if (mod == 0 and basef == 5) else basef + 8 * B
    ireg = idxf + 8 * X
    if ireg == 4:
        ireg = None                  # index field 100 without REX.X: no index
    if breg == 4 or not ABS_SCRATCH:
        return None
    A = 32 if a67 else 64
    MA = (1 << A) - 1
    k = 1 << scale

    def wide(v):
        # value of an address register: under 67 only the low half matters, the upper half is garbage
        v &= MA
        if a67 and rng.random() < 0.75:
            v |= rng.getrandbits(32) << 32
        return v

    def provider(rng, opsize, reg):
        T = ABS_SCRATCH + rng.randrange(EA_LO, EA_HI + 1)
        setregs = {}
        if mod == 1:
            d = rng.choice([0, 1, 8, 0x10, 0x1F, 0x7F, 0x80, 0xF8, 0xF0, 0xE0, 0xFF, rng.randrange(256)])
            disp = d.to_bytes(1, "little")
            d = d - 256 if d > 127 else d
        elif mod == 2:
            d = rng.choice([0, 1, 16, 0x1F, 0x7FFFFFFF, 0x80000000, 0xFFFFFFF0, 0xFFFFFFE0, 0xFFFFFFFF, rng.getrandbits(32), rng.getrandbits(32)])
            disp = d.to_bytes(4, "little")
            d = d - (1 << 32) if d >> 31 else d
        else:
            d, disp = 0, b""
        if breg is None:
            # index*scale + disp32 (sign-extended)
            if ireg is None:
                d = T
            elif a67:
                iv = index_value(rng)
                setregs[ireg] = wide(iv)
                d = (T - iv * k) & 0xFFFFFFFF
            else:
                iv = rng.choice([1, 2, 3, 7, 0x11, rng.randrange(1, 64), rng.randrange(1, 1 << 26), -1, -2, -8, -rng.randrange(1, 1 << 26)])
                if not -(1 << 31) <= T - iv * k < (1 << 31):
                    iv = rng.randrange(1, 16)           # the sign-extended disp32 must give back T - iv*k
                setregs[ireg] = iv & MA
                d = (T - iv * k) & 0xFFFFFFFF
            disp = d.to_bytes(4, "little")
        elif ireg is None:
            setregs[breg] = wide(T - d)
        elif ireg == breg:
            # one register as base and index: r*(1+scale) + disp
            if k == 1:
                if (T - d) & 1:
                    T += 1
                r = ((T - d) & MA) >> 1
                if rng.random() < 0.5:
                    r |= 1 << (A - 1)                  # carried out of the address
            else:
                r = ((T - d) * pow(1 + k, -1, 1 << A)) & MA
            setregs[breg] = wide(r)
        else:
            iv = index_value(rng)
            setregs[ireg] = wide(iv) if rng.random() < 0.5 else iv
            setregs[breg] = wide(T - d - iv * k)
        rexr = 0
        if reg is None:
            reg = rng.randrange(8)
            rexr = rng.randrange(2)
        out = bytes([(mod << 6) | ((reg & 7) << 3) | 4, (scale << 6) | (idxf << 3) | basef]) + disp
        info = {"mem": True, "idx": None, "reg": (reg & 7) + 8 * rexr, "setregs": setregs, "a67": a67,
                "sib": {"x": X, "b": B, "index": idxf, "base": basef, "mod": mod, "scale": scale, "index_reg": ireg, "base_reg": breg}}
        return {"r": rexr, "x": X, "b": B}, out, info
    return provider


def sib_sweep(rng, reps):
    """yields Cases: reps x every (REX.X, REX.B, index field, scale, mod), with random base field / 67 prefix / instruction"""
    global FORCED
    for rep in range(reps):
        for X in (0, 1):
            for B in (0, 1):
                for idxf in range(8):
                    for scale in range(4):
                        for mod in (0, 1, 2):
                            for attempt in range(8):
                                basef = rng.randrange(8)
                                a67 = rng.random() < 0.3
                                prov = sib_operand(rng, X, B, idxf, basef, mod, scale, a67)
                                if prov is None:
                                    continue
                                FORCED = prov
                                try:
                                    c = gen_case(rng, rng.choice(SWEEP_CLASSES))
                                finally:
                                    FORCED = None
                                if c is not None and c.setregs is not None:
                                    yield c
                                    break


def _twos(v, n):
    return v & ((1 << n) - 1)


def mul_sweep(rng, reps):
    """multiplications whose product lies at the edge of what fits: register forms of IMUL r,r/m (0F AF), IMUL r,r/m,imm (69 / 6B),
    and the one-operand IMUL / MUL (F6 / F7 /5 /4) at every operand size, with operands chosen so that the signed (unsigned for MUL)
    product is within +-2 of +-2^(n-1), +-2^n, 0 - where CF/OF change - besides random operands.  Destination rbx (reg field),
    source rcx (rm field); the one-operand forms multiply rax (al) by rcx."""
    for rep in range(reps):
        for n in (8, 16, 32, 64):
            pre = {8: b"", 16: b"\x66", 32: b"", 64: b"\x48"}[n]
            forms = ["one-imul", "one-mul"] + ([] if n == 8 else ["two", "imm8", "immfull"])
            for form in forms:
                for edge in (n - 1, n, n - 2, None):
                    for sa, sb in ((1, 1), (1, -1), (-1, 1), (-1, -1)):
                        if edge is None:
                            a, b = rng.getrandbits(n), rng.getrandbits(n)
                        else:
                            i = rng.randrange(0, edge + 1)
                            a = sa * (1 << i) + rng.choice([0, 0, 1, -1])
                            bb = (1 << (edge - i))
                            b = sb * bb + rng.choice([0, 0, 1, -1])
                        regs = {}
                        if form == "two":
                            code = pre + b"\x0F\xAF" + bytes([0xC0 | (3 << 3) | 1])
                            regs[3], regs[1] = a, b
                            name = "IMUL2"
                        elif form in ("imm8", "immfull"):
                            isz = 1 if form == "imm8" else (2 if n == 16 else 4)
                            lim = 1 << (8 * isz - 1)
                            imm = max(-lim, min(lim - 1, a if a else 3))
                            if edge is not None and imm not in (0, 1, -1):
                                q = (sb * (1 << edge)) // imm
                                b = q + rng.choice([0, 1, -1])
                            code = pre + (b"\x6B" if form == "imm8" else b"\x69") + bytes([0xC0 | (3 << 3) | 1]) + _twos(imm, 8 * isz).to_bytes(isz, "little")
                            regs[1] = b
                            name = "IMUL3"
                        else:
                            ext = 5 if form == "one-imul" else 4
                            code = pre + bytes([0xF6 | (0 if n == 8 else 1), 0xC0 | (ext << 3) | 1])
                            regs[0], regs[1] = a, b
                            name = "IMUL1" if ext == 5 else "MUL1"
                        setregs = {k: ((rng.getrandbits(64) & ~((1 << n) - 1)) | _twos(v, n)) for k, v in regs.items()}
                        yield Case(name, code, CF | OF, n, setregs=setregs, mul={"form": form, "width": n, "edge": edge})
