# C01 — the expression algebra preserves bit-vector meaning (also drives C12's width checks).
# Static: theorems of coq/Properties/C01.v (constant operators, rewrite rules, evaluation vs the reference
# semantics `denote`, for all widths / operands / valuations).
# Tie: (i) cst operators, exhaustive small widths + random wide widths, model vs implementation (vm_compute);
#      (ii) trees built through the operator API: implementation result tree and mapper evaluation versus the
#      Gallina reference semantics (`denote`, evaluated by vm_compute) and an independent Python interpreter.
import json
import random
import traceback

import common
import isa
import exptree as X
from common import zlit, clist

LEVEL = "proof"


class Ctx:
    def __init__(self):
        isa.quiet()
        from amoco.cas import expressions as E
        from amoco.cas.mapper import mapper
        from amoco.config import conf
        self.E, self.mapper, self.conf = E, mapper, conf


def ops_of(r, acc=None):
    acc = [] if acc is None else acc
    k = r[0]
    if k in ("bin", "shc", "rot", "un"):
        acc.append(r[1] + ("c" if k == "shc" else ""))
    elif k not in ("cst", "reg"):
        acc.append(k)
    for x in (r[1] if k == "cat" else r[1:]):
        if isinstance(x, tuple):
            ops_of(x, acc)
    return acc


def children(r):
    k = r[0]
    if k == "cat":
        return list(r[1])
    return [x for x in r[1:] if isinstance(x, tuple)]


BIN = {"+": "Add", "-": "Sub", "*": "Mul", "&": "And", "|": "Or", "^": "Xor", "<<": "Shl", ">>": "Shr", ".>>": "Asr", ">>>": "Ror",
       "<<<": "Rol", "==": "Eq", "!=": "Neq", "<.": "Ltu", ">=.": "Geu", "<": "Lt", "<=": "Le", ">": "Gt", ">=": "Ge", "**": "Mul2",
       "/": "Div", "%": "Mod"}
BINID = {s: i for i, s in enumerate(["+", "-", "*", "&", "|", "^", "<<", ">>", ".>>", ">>>", "<<<", "==", "!=", "<.", ">=.", "<", "<=", ">",
                                     ">=", "**", "/", "%"])}


class Unsupported(Exception):
    pass


def coq_exp(t, names):
    """dumped tree -> Gallina term of Amoco.Exp.Sem.exp"""
    k = t[0]
    b = lambda x: "true" if x else "false"
    if k == "cst":
        return "(ECst %s %d %s)" % (zlit(t[1]), t[2], b(t[3]))
    if k == "reg":
        return "(EReg %d %d %s)" % (names.setdefault(t[1], len(names)), t[2], b(t[3]))
    if k == "slc":
        return "(ESlc %s %d %d %s)" % (coq_exp(t[1], names), t[2], t[3], b(t[4]))
    if k == "comp":
        parts = t[1]
        if len(parts) < 2:
            raise Unsupported("comp with %d part" % len(parts))
        # right-nested concatenation; inner nodes carry the width of what they hold
        acc = coq_exp(parts[-1][2], names)
        accw = parts[-1][1] - parts[-1][0]
        for lo, hi, p in reversed(parts[:-1]):
            accw += hi - lo
            acc = "(ECat %s %s %d %s)" % (coq_exp(p, names), acc, accw, b(t[3]))
        return acc
    if k == "tst":
        return "(ETst %s %s %s %d %s)" % (coq_exp(t[1], names), coq_exp(t[2], names), coq_exp(t[3], names), t[4], b(t[5]))
    if k == "op":
        return "(EOp %s %s %s %d %s)" % (BIN[t[1]], coq_exp(t[2], names), coq_exp(t[3], names), t[4], b(t[5]))
    if k == "uop":
        if t[1] == "+":
            return coq_exp(t[2], names)
        return "(EUop %s %s %d %s)" % ({"-": "Neg", "~": "Not"}[t[1]], coq_exp(t[2], names), t[3], b(t[4]))
    raise Unsupported(k)


def run_case(cx, r, signed, threshold, envs, collect=None):
    """-> None if everything agrees, else (symptom, detail)"""
    E = cx.E
    cx.conf.Cas.complexity = threshold
    B = X.Builder(signed)
    want_size = X.r_size(r)
    try:
        wants = [X.ref_recipe(r, env, signed) for env in envs]
    except X.Ambiguous:
        return ("skip", "reference undefined")
    try:
        e = B.build(r)
    except X.Ambiguous:
        return ("skip", "ambiguous signedness")
    except ZeroDivisionError:
        return ("skip", "division by zero")
    except Exception as x:
        tb = traceback.extract_tb(x.__traceback__)[-1]
        return ("build-raised|%s|%s" % (type(x).__name__, tb.name), str(x)[:100])
    if e.size != want_size:
        return ("width", "built expression has width %d, construction dictates %d: %s" % (e.size, want_size, e))
    try:
        t = X.dump(e)
    except Exception as x:
        return ("dump-raised|" + type(x).__name__, str(x)[:100])
    er = X.tiling_error(t)
    if er:
        return ("tiling", er + " in " + str(e))
    # the same tree through simplify with the bit-slicing option
    try:
        tb = X.dump(X.Builder(signed).build(r).simplify(bitslice=True))
        for env, want in zip(envs, wants):
            try:
                got = X.ref_dump(tb, env)
            except X.Ambiguous:
                continue
            if got != want:
                return ("bitslice-simplified-tree-differs", "simplify(bitslice=True) of %s denotes %#x, reference %#x under %s" % (e, got, want, env))
    except (X.Ambiguous, ZeroDivisionError):
        pass
    except MemoryError:
        return ("resource|simplify-bitslice", "simplify(bitslice=True) of %s exhausts memory" % e)
    except Exception as x:
        tb_ = traceback.extract_tb(x.__traceback__)[-1]
        return ("bitslice-raised|%s|%s" % (type(x).__name__, tb_.name), "simplify(bitslice=True) of %s: %s" % (e, str(x)[:80]))
    for env, want in zip(envs, wants):
        try:
            got = X.ref_dump(t, env)
            if got != want:
                return ("simplified-tree-differs", "tree %s denotes %#x, reference %#x under %s" % (e, got, want, env))
        except X.Ambiguous:
            pass
        m = cx.mapper()
        try:
            for nm, sz in B.regs.items():
                m[B.regs[nm]] = E.cst(env.get(nm, 0), sz.size)
            res = m(e) if len(m) > 0 else e.eval(m)
        except ZeroDivisionError:
            return ("skip", "division by zero")
        except Exception as x:
            tb = traceback.extract_tb(x.__traceback__)[-1]
            return ("eval-raised|%s|%s" % (type(x).__name__, tb.name), "%s under %s: %s" % (e, env, str(x)[:60]))
        if res.size != want_size:
            return ("width", "evaluation of %s has width %d, construction dictates %d" % (e, res.size, want_size))
        if res._is_cst:
            if res.v != want:
                return ("eval-value-differs", "%s evaluates to %#x, reference %#x under %s" % (e, res.v, want, env))
            if collect is not None and len(collect) < collect.limit:
                try:
                    names = {}
                    term = coq_exp(t, names)
                    envt = clist(["(%d, %s)" % (names[nm], zlit(v)) for nm, v in env.items() if nm in names])
                    collect.append(("(%s, %s, %s)" % (term, envt, zlit(res.v)),
                                    "(%s, %s, (0, C %s %d %s))" % (term, envt, zlit(res.v), res.size, "true" if res.sf else "false")))
                except Unsupported:
                    pass
    return None


def shrink(cx, r, signed, threshold, envs, symptom):
    """greedy: replace the recipe by a child of the same width, or a subtree by a child / constant"""
    def fails(c):
        try:
            o = run_case(cx, c, signed, threshold, envs)
        except Exception:
            return False
        return o is not None and o[0].split("|")[0] == symptom.split("|")[0]

    def variants(t):
        # whole-tree replacements by same-width children
        for c in children(t):
            if X.r_size(c) == X.r_size(t):
                yield c
        if t[0] not in ("cst", "reg"):
            yield ("reg", "s%d" % X.r_size(t), X.r_size(t))
        k = t[0]
        if k == "cat":
            for i, c in enumerate(t[1]):
                for v in variants(c):
                    yield ("cat", t[1][:i] + [v] + t[1][i + 1:])
        else:
            for i in range(1, len(t)):
                if isinstance(t[i], tuple):
                    for v in variants(t[i]):
                        if X.r_size(v) == X.r_size(t[i]):
                            yield t[:i] + (v,) + t[i + 1:]
    cur = r
    for _ in range(60):
        for v in variants(cur):
            regs = {}
            for nm, sz in collect_regs(v).items():
                regs[nm] = sz
            envs2 = [dict({nm: 0 for nm in regs}, **{k: x for k, x in env.items() if k in regs}) for env in envs]
            for env in envs2:
                for nm, sz in regs.items():
                    env.setdefault(nm, 0)
            if X.recipe_ops(v) < X.recipe_ops(cur) and fails_with(cx, v, signed, threshold, envs2, symptom):
                cur, envs = v, envs2
                break
        else:
            break
    return cur, envs


def fails_with(cx, c, signed, threshold, envs, symptom):
    try:
        o = run_case(cx, c, signed, threshold, envs)
    except Exception:
        return False
    return o is not None and o[0].split("|")[0] == symptom.split("|")[0]


def collect_regs(r, acc=None):
    acc = {} if acc is None else acc
    if r[0] == "reg":
        acc[r[1]] = r[2]
    for x in (r[1] if r[0] == "cat" else r[1:]):
        if isinstance(x, tuple):
            collect_regs(x, acc)
    return acc


def classify(cx, small, signed, threshold, o):
    """root-cause key of a (shrunk) failing recipe: a recognised cause, else symptom|root operator"""
    root = small[1] if small[0] in ("bin", "shc", "rot", "un") else small[0]
    if threshold > 0:
        # two sub-expressions both replaced by `top` render identically and therefore compare as equal
        def has_two_tops(r):
            if r[0] == "bin" and r[1] in X.EQS + X.SCMP + X.UCMP:
                try:
                    cx.conf.Cas.complexity = threshold
                    B = X.Builder(signed)
                    a, b = X.dump(B.build(r[2])), X.dump(B.build(r[3]))
                    if a[0] == "top" and b[0] == "top":
                        return True
                except Exception:
                    pass
            return any(has_two_tops(c) for c in children(r))
        if has_two_tops(small):
            return "comparison-of-two-tops|complexity-threshold"
    if small[0] == "bin" and small[1] in X.SCMP + ("**", "/", "%") and any(c[0] == "tst" for c in children(small)):
        return "declared-signedness-lost|conditional-operand-branch-selected"
    return "%s|%s" % (o[0], root)


def tup(x):
    if isinstance(x, list):
        if x and isinstance(x[0], str):
            return tuple(tup(y) for y in x)
        return [tup(y) for y in x]
    return x


def corpus_part(run):
    """minimised historical failures (all of the fixed ones must pass; the known ones print KNOWN-FINDING)"""
    import glob
    cx = Ctx()
    for f in sorted(glob.glob(str(common.VERIF / "corpus" / "C01" / "*.json"))):
        c = json.load(open(f))
        r = tup(c["recipe"])
        envs = c["envs"]
        run.count(("corpus", f))
        try:
            o = run_case(cx, r, c["signed"], c["threshold"], envs)
        except Exception as x:
            o = ("harness-error", repr(x))
        if o is not None and o[0] != "skip":
            key = classify(cx, r, c["signed"], c["threshold"], o)
            run.violation(key, "corpus case %s: %s" % (f.split("/")[-1], o[1][:120]),
                          {"recipe": r, "signed": c["signed"], "threshold": c["threshold"], "envs": envs, "detail": o[1]})


def gen_case(rng, maxdepth):
    signed = rng.random() < 0.5
    n = rng.choice(X.WIDTHS + [rng.randrange(1, 129)])
    regs = {}
    r = X.gen_recipe(rng, n, rng.randrange(1, maxdepth + 1), signed, regs)
    regs = collect_regs(r)
    threshold = 0 if rng.random() < 0.65 else rng.choice([4, 12, 40])
    envs = X.valuations(rng, regs, 3)
    return r, signed, threshold, envs


def worker(args):
    seed, ncases, maxdepth = args
    import resource
    resource.setrlimit(resource.RLIMIT_AS, (4 << 30, 4 << 30))
    cx = Ctx()
    rng = random.Random(seed)
    out = {"n": 0, "skipped": 0, "distinct": set(), "finds": {}, "ops": {}, "samples": [], "widths": {}}

    class L(list):
        limit = 220
    sem = L()
    out["sem"] = sem
    for _ in range(ncases):
        r, signed, threshold, envs = gen_case(rng, maxdepth)
        out["n"] += 1
        try:
            o = run_case(cx, r, signed, threshold, envs, sem if out["n"] % 3 == 0 else None)
        except Exception as x:
            o = ("harness-error", repr(x))
        if o is not None and o[0] == "skip":
            out["skipped"] += 1
            continue
        nops = X.recipe_ops(r)
        if nops >= 2:
            out["distinct"].add(hash(repr((r, signed, threshold))))
        for s in set(ops_of(r)):
            out["ops"][s] = out["ops"].get(s, 0) + 1
        w = X.r_size(r)
        wk = "1" if w == 1 else "2-8" if w <= 8 else "9-32" if w <= 32 else "33-64" if w <= 64 else "65-128"
        out["widths"][wk] = out["widths"].get(wk, 0) + 1
        if len(out["samples"]) < 2 and nops >= 3:
            out["samples"].append({"recipe": r, "signed": signed, "threshold": threshold})
        if o is not None:
            small, envs2 = shrink(cx, r, signed, threshold, envs, o[0])
            o2 = run_case(cx, small, signed, threshold, envs2) or o
            key = classify(cx, small, signed, threshold, o2)
            if key not in out["finds"]:
                out["finds"][key] = {"recipe": small, "signed": signed, "threshold": threshold, "envs": envs2, "detail": o2[1],
                                     "original_recipe_ops": nops}
    out["distinct"] = len(out["distinct"])
    out["sem"] = list(sem)
    return out


def check(run):
    quick = run.tier == "quick"
    run.cov["rule"] = ("tree = random recipe over the operator API (widths {1,2,3,7,8,16,31,32,33,64,65,128} + random 1..128, depth<=4, "
                       "all covered operators, constants biased to 0/1/-1/msb/masks, shift amounts around the width, symbolic amounts, "
                       "one declared signedness per tree) x 3 valuations (boundary+random) x complexity threshold (off/small); distinct by "
                       "(recipe, mode, threshold); non-trivial when the recipe has >= 2 operators")
    run.static_part()
    corpus_part(run)
    import multiprocessing as mp
    ntasks = 14
    per = (3000 if quick else 40000)
    tasks = [(run.seed * 1009 + i, per, 4) for i in range(ntasks)]
    with mp.get_context("fork").Pool(14) as pool:
        results = pool.map(worker, tasks, chunksize=1)
    finds = {}
    for r in results:
        run.cov["evaluations"] += r["n"]
        run.cov["skipped_outside_covered_fragment"] = run.cov.get("skipped_outside_covered_fragment", 0) + r["skipped"]
        for k, v in r["ops"].items():
            run.hist("trees_by_operator", k, v)
        for k, v in r["widths"].items():
            run.hist("trees_by_width", k, v)
        for s in r["samples"]:
            run.sample(s, 4)
        run._distinct.update(("%d-%d" % (id(r), j)).encode() for j in range(r["distinct"]))
        for k, v in r["finds"].items():
            finds.setdefault(k, v)
    for k, v in sorted(finds.items()):
        run.violation(k, "expression algebra: %s" % v["detail"][:140], v)
    sem = [c[0] for r in results for c in list(r["sem"])]
    evs = [c[1] for r in results for c in list(r["sem"])]
    cst_part(run, quick)
    tree_part(run, sem)
    eval_part(run, evs)
    rules_part(run, Ctx(), quick)
    run.cov["trusted_base"] += ["harness/exptree.py: recipe generator, independent tree walker (dump) and Python reference interpreter; "
                                "harness/c01.py translation of dumped trees into Gallina terms"]
    run.assumptions += ["signed division/modulo and rotations by >= width are outside the covered fragment; operands of ordered comparisons, "
                        "**, / and % are registers, constants and sign-agnostic arithmetic over them, explicitly declared signed/unsigned"]
    return run


def cst_part(run, quick):
    """cst operators: model (Amoco.Exp.Cst) vs implementation; exhaustive for small widths, random for wide ones"""
    cx = Ctx()
    E = cx.E
    rng = random.Random(run.seed * 77 + 5)
    syms = sorted(BINID, key=BINID.get)
    rows = []

    def one(sym, va, na, sa, vb, nb, sb):
        a, b = E.cst(va, na), E.cst(vb, nb)
        a.sf, b.sf = sa, sb
        try:
            r = E._operator(sym)(a, b)
            obs = "(0, C %s %d %s)" % (zlit(r.v), r.size, "true" if r.sf else "false")
        except ZeroDivisionError:
            obs = "(2, C 0 0 false)"
        except ValueError:
            obs = "(1, C 0 0 false)"
        rows.append("(%d, C %s %d %s, C %s %d %s, %s)" % (BINID[sym], zlit(va), na, "true" if sa else "false", zlit(vb), nb,
                                                        "true" if sb else "false", obs))
    maxw = 3 if quick else 4
    for n in range(1, maxw + 1):
        for va in range(1 << n):
            for vb in range(1 << n):
                for sa in (False, True):
                    for sb in (False, True):
                        for sym in syms:
                            one(sym, va, n, sa, vb, n, sb)
    nexh = len(rows)
    for _ in range(3000 if quick else 40000):
        n = rng.choice(X.WIDTHS + [rng.randrange(1, 129)])
        sym = rng.choice(syms)
        pick = lambda: rng.choice([0, 1, X.mask(n), 1 << (n - 1), rng.getrandbits(n), rng.getrandbits(n)])
        va, vb = pick(), pick()
        if sym in X.SHIFTS + X.ROTS and rng.random() < 0.6:
            vb = rng.choice([0, 1, n - 1, n, n + 1, rng.randrange(0, 2 * n + 2)]) & X.mask(n)
        nb = n if rng.random() < 0.95 else rng.choice(X.WIDTHS)
        one(sym, va, n, rng.random() < 0.5, vb & X.mask(nb), nb, rng.random() < 0.5)
    shards = [rows[i:i + 1500] for i in range(0, len(rows), 1500)]
    texts = [("cst_%03d" % i, "From Coq Require Import ZArith List.\nImport ListNotations.\nRequire Import Amoco.Exp.Sem Amoco.Exp.Cst.\nOpen Scope Z_scope.\n"
              "Definition cases : list cst_case := [\n%s\n].\nEval vm_compute in (bad_from check_cst 0 cases).\n" % ";\n".join(sh)) for i, sh in enumerate(shards)]
    res = common.coq_eval_many(run.work / "cst", texts)
    n_ok = 0
    for i, sh in enumerate(shards):
        rc, out = res["cst_%03d" % i]
        lists = common.parse_nat_list(out)
        if rc != 0 or len(lists) != 1:
            run.violation("model-eval|cst", "cst model evaluation failed", {"theorem_or_correspondence": "Amoco.Exp.Cst.check_cst shard %d" % i, "output": out[-800:]}, found_input=False)
            continue
        n_ok += len(sh)
        for k in lists[0][:3]:
            run.violation("cst-model-impl-correspondence", "Gallina cst operator model and cst class disagree: %s" % sh[k][:120],
                          {"theorem_or_correspondence": "Amoco.Exp.Cst.check_cst", "case(op,a,b,observed)": sh[k]}, found_input=False)
    run.cov["cst_operator_cases"] = {"exhaustive_widths_1..%d" % maxw: nexh, "random_wide": len(rows) - nexh, "evaluated_in_coq": n_ok}
    run.cov["evaluations"] += len(rows)
    run.cov["traces_validated_against_impl"] = run.cov.get("traces_validated_against_impl", 0) + n_ok


def eval_part(run, evs):
    """the Gallina model of exp.eval (Amoco.Exp.Eval) against the constants the implementation returned (value, width, sign flag)"""
    shards = [evs[i:i + 300] for i in range(0, len(evs), 300)]
    texts = [("ev_%03d" % i, "From Coq Require Import ZArith List.\nImport ListNotations.\nRequire Import Amoco.Exp.Sem Amoco.Exp.Cst Amoco.Exp.Eval.\nOpen Scope Z_scope.\n"
              "Definition cases : list eval_case := [\n%s\n].\nEval vm_compute in (bad_from check_eval 0 cases).\n" % ";\n".join(sh)) for i, sh in enumerate(shards)]
    res = common.coq_eval_many(run.work / "ev", texts)
    n_ok = 0
    for i, sh in enumerate(shards):
        rc, out = res["ev_%03d" % i]
        lists = common.parse_nat_list(out)
        if rc != 0 or len(lists) != 1:
            run.violation("model-eval|eval", "eval model evaluation failed", {"theorem_or_correspondence": "Amoco.Exp.Eval.check_eval shard %d" % i, "output": out[-800:]}, found_input=False)
            continue
        n_ok += len(sh)
        for k in lists[0][:3]:
            run.violation("eval-model-impl-correspondence", "Gallina model of exp.eval and the implementation disagree (value, width or sign flag)",
                          {"theorem_or_correspondence": "Amoco.Exp.Eval.check_eval", "case(tree,env,observed)": sh[k][:1500]}, found_input=False)
    run.cov["eval_model_cases_in_coq"] = n_ok
    run.cov["traces_validated_against_impl"] = run.cov.get("traces_validated_against_impl", 0) + n_ok


def tree_part(run, sem):
    """implementation-built trees and the values amoco computed for them, checked against `denote` by the Coq kernel"""
    shards = [sem[i:i + 300] for i in range(0, len(sem), 300)]
    texts = [("sem_%03d" % i, "From Coq Require Import ZArith List.\nImport ListNotations.\nRequire Import Amoco.Exp.Sem.\nOpen Scope Z_scope.\n"
              "Definition cases : list sem_case := [\n%s\n].\nEval vm_compute in (bad_from check_sem 0 cases).\n"
              "Eval vm_compute in [count_true sem_defined cases].\n" % ";\n".join(sh)) for i, sh in enumerate(shards)]
    res = common.coq_eval_many(run.work / "sem", texts)
    n_ok = n_def = 0
    for i, sh in enumerate(shards):
        rc, out = res["sem_%03d" % i]
        lists = common.parse_nat_list(out)
        if rc != 0 or len(lists) != 2:
            run.violation("model-eval|sem", "reference semantics evaluation failed", {"theorem_or_correspondence": "Amoco.Exp.Sem.check_sem shard %d" % i, "output": out[-800:]}, found_input=False)
            continue
        n_ok += len(sh)
        n_def += lists[1][0] if lists[1] else 0
        for k in lists[0][:3]:
            run.violation("denote-vs-implementation", "amoco's value for a built tree differs from the Gallina reference semantics (or the tree is not well-sized)",
                          {"theorem_or_correspondence": "Amoco.Exp.Sem.check_sem", "case(tree,env,value)": sh[k][:1500]}, found_input=False)
    run.cov["trees_checked_against_denote_in_coq"] = {"cases": n_ok, "denote_defined": n_def}
    run.cov["traces_validated_against_impl"] = run.cov.get("traces_validated_against_impl", 0) + n_ok


# ------------------------------------------------------------------------------------------
# rule-by-rule correspondence: eqn1_helpers / eqn2_helpers on raw nodes vs Amoco.Exp.Rules
# ------------------------------------------------------------------------------------------
RULES = ["r1_neg_neg", "r1_neg_arith", "r1_not_cmp", "r2_reassoc_l", "r2_merge_consts", "r2_add_neg", "r2_reassoc_r", "r2_zero_id",
         "r2_zero_abs", "r2_one_id", "r2_mask", "r2_shift_out", "r2_shift_comp", "r2_eq_bit", "r2_same", "r2_comp_logic"]
CMPS = ["==", "!=", "<", "<=", ">", ">=", "<.", ">=."]


def rule_instances(E, rng, quick):
    """(rule index or None, thunk building a fresh raw node): operands are distinct registers (so that exactly the rule under
    test fires and what it returns is not rewritten further), widths 1..128, boundary and random constants"""
    widths = [1, 2, 3, 7, 8, 16, 31, 32, 64, 128] if quick else [1, 2, 3, 4, 5, 7, 8, 9, 15, 16, 17, 31, 32, 33, 63, 64, 65, 127, 128]
    out = []
    R = lambda nm, n: E.reg(nm, n)
    K = lambda v, n: E.cst(v, n)

    def consts(n, k, nonzero=True):
        m = (1 << n) - 1
        c = {1, m, m >> 1, (m >> 1) + 1, 2 & m, 5 & m, 0x5A & m}
        for _ in range(4 * k + 8):
            if len(c) >= k + 7:
                break
            c.add(rng.getrandbits(n))
        return sorted(x for x in c if x or not nonzero)[:k + 4]

    for n in widths:
        a, b = ("a", n), ("b", n)
        out.append((0, lambda a=a: E.uop("-", E.uop("-", R(*a)))))
        for o in "+-":
            out.append((1, lambda a=a, b=b, o=o: E.uop("-", E.op(o, R(*a), R(*b)))))
            out.append((5, lambda a=a, b=b: E.op("+", R(*a), E.uop("-", R(*b)))))
            for lo in "+-":
                for c in consts(n, 2):
                    out.append((3, lambda a=a, b=b, o=o, lo=lo, c=c, n=n: E.op(o, E.op(lo, R(*a), K(c, n)), R(*b))))
                    out.append((6, lambda a=a, b=b, o=o, lo=lo, c=c, n=n: E.op(o, R(*a), E.op(lo, R(*b), K(c, n)))))
                    for c2 in consts(n, 1):
                        out.append((4, lambda a=a, o=o, lo=lo, c=c, c2=c2, n=n: E.op(o, E.op(lo, R(*a), K(c, n)), K(c2, n))))
        for cm in CMPS:
            out.append((2, lambda a=a, b=b, cm=cm: E.uop("~", E.op(cm, R(*a), R(*b)))))
            for bit in (0, 1):
                for eq in ("==", "!="):
                    out.append((13, lambda a=a, b=b, cm=cm, bit=bit, eq=eq: E.op(eq, E.op(cm, R(*a), R(*b)), K(bit, 1))))
        for bit in (0, 1):
            for eq in ("==", "!="):
                out.append((13, lambda bit=bit, eq=eq: E.op(eq, E.op("&", R("x", 1), R("y", 1)), K(bit, 1))))
                out.append((13, lambda bit=bit, eq=eq: E.op(eq, E.uop("~", R("x", 1)), K(bit, 1))))
        for o in ("|", "^", "+", "-", ">>", "<<", ">>>", "<<<"):
            out.append((7, lambda a=a, o=o, n=n: E.op(o, R(*a), K(0, n))))
        for o in ("&", "*", "**"):
            out.append((8, lambda a=a, o=o, n=n: E.op(o, R(*a), K(0, n))))
        for o in ("*", "/"):
            out.append((9, lambda a=a, o=o, n=n: E.op(o, R(*a), K(1, n))))
        pairs = [(i1, i2) for i1 in range(n) for i2 in range(i1, n)]
        for i1, i2 in (pairs if len(pairs) <= 40 else rng.sample(pairs, 24) + [(0, n - 1), (0, 0), (n - 1, n - 1), (1, n - 2)]):
            m = ((1 << (i2 + 1)) - 1) ^ ((1 << i1) - 1)
            out.append((10, lambda a=a, m=m, n=n: E.op("&", R(*a), K(m, n))))
        ks = sorted({1, 2, n // 2, n - 1, n, n + 1, (1 << n) - 1} | {rng.randrange(1, 2 * n + 2) for _ in range(3)})
        for k in ks:
            if k <= 0 or k >= (1 << n):
                continue
            for o in ("<<", ">>"):
                out.append((11 if k >= n else 12, lambda a=a, o=o, k=k, n=n: E.op(o, R(*a), K(k, n))))
            # an arithmetic shift / a rotation by a non-zero constant, a multiplication by a constant >= 2: no rule
            out.append((None, lambda a=a, k=k, n=n: E.op(".>>", R(*a), K(k, n))))
            if k < n:
                out.append((None, lambda a=a, k=k, n=n: E.op(">>>", R(*a), K(k, n))))
            if k >= 2:
                out.append((None, lambda a=a, k=k, n=n: E.op("*", R(*a), K(k, n))))
        for o in ("-", "^", "&", "|", "==", "!=", "<", "<=", ">", ">="):
            out.append((14, lambda a=a, o=o: E.op(o, R(*a), R(*a))))
        for o in ("+", "*", "&", "|", "^", "<", "==", "<.", "-"):
            out.append((None, lambda a=a, b=b, o=o: E.op(o, R(*a), R(*b))))
        if n >= 8:
            # part-wise logic on a composition: parts of width >= 3, constants whose slice on each part is neither 0 nor a
            # contiguous mask for & (101b pattern), non-zero for | and ^
            cuts = sorted(rng.sample(range(3, n - 2), min(2, max(0, (n - 5) // 3)))) if n >= 12 else [n // 2]
            cuts = [c for i, c in enumerate(cuts) if c - ([0] + cuts)[i] >= 3 and n - c >= 3]
            bounds = [0] + cuts + [n]
            if len(bounds) >= 3:
                cval = 0
                for lo_, hi_ in zip(bounds, bounds[1:]):
                    cval |= (0b101 | (rng.getrandbits(hi_ - lo_) & ~0b010)) << lo_
                cval &= (1 << n) - 1
                for o in ("&", "|", "^"):
                    out.append((15, lambda o=o, bounds=bounds, cval=cval, n=n: E.op(o, E.composer([R("p%d" % i, hi_ - lo_) for i, (lo_, hi_) in enumerate(zip(bounds, bounds[1:]))]), K(cval, n))))
    return out


RULES2 = ["r3_slc_push", "r4_tst_const", "r4_tst_same"]


def rule2_instances(E, rng, quick):
    """slc.simplify / tst.simplify on raw nodes over register operands: (rule index in rules2 or None, thunk)"""
    widths = [2, 3, 7, 8, 16, 31, 32, 64, 128] if quick else [2, 3, 4, 5, 7, 8, 9, 15, 16, 17, 31, 32, 33, 63, 64, 65, 127, 128]
    out = []
    R = lambda nm, n: E.reg(nm, n)
    for n in widths:
        a, b = ("a", n), ("b", n)
        spans = {(0, 1), (0, n - 1), (1, n - 1), (n - 1, 1), (0, n // 2), (n // 2, n - n // 2)}
        for _ in range(4):
            p = rng.randrange(0, n)
            spans.add((p, rng.randrange(1, n - p + 1)))
        spans = sorted(x for x in spans if x[1] >= 1 and x[0] + x[1] <= n and not (x[0] == 0 and x[1] == n))
        for (p, ln) in spans:
            for o in ("&", "|", "^"):
                out.append((0, lambda a=a, b=b, o=o, p=p, ln=ln: E.slc(E.op(o, R(*a), R(*b)), p, ln)))
            out.append((0, lambda a=a, p=p, ln=ln: E.slc(E.uop("~", R(*a)), p, ln)))
            for o in ("+", "-"):
                out.append((0 if p == 0 else None, lambda a=a, b=b, o=o, p=p, ln=ln: E.slc(E.op(o, R(*a), R(*b)), p, ln)))
            out.append((0 if p == 0 else None, lambda a=a, p=p, ln=ln: E.slc(E.uop("-", R(*a)), p, ln)))
            # a slice of a product, of a shift by a register, of a comparison-free arithmetic node at pos > 0: no rule
            out.append((None, lambda a=a, b=b, p=p, ln=ln: E.slc(E.op("*", R(*a), R(*b)), p, ln)))
            out.append((None, lambda a=a, b=b, p=p, ln=ln: E.slc(E.op("<<", R(*a), R(*b)), p, ln)))
        for bit in (0, 1):
            out.append((1, lambda a=a, b=b, bit=bit: E.tst(E.cst(bit, 1), R(*a), R(*b))))
        out.append((2, lambda a=a: E.tst(R("c", 1), R(*a), R(*a))))
        out.append((None, lambda a=a, b=b: E.tst(R("c", 1), R(*a), R(*b))))
    return out


def rules_part(run, cx, quick):
    E = cx.E
    rng = random.Random(run.seed * 7919 + 17)
    cx.conf.Cas.complexity = 0
    cases, norule, descr = [], [], []
    cases2, norule2 = [], []
    skipped = 0
    inst = [(1, k, t) for k, t in rule_instances(E, rng, quick)] + [(2, k, t) for k, t in rule2_instances(E, rng, quick)]
    for tab, k, thunk in inst:
        names_ = RULES if tab == 1 else RULES2
        try:
            node = thunk()
            before = X.dump(node)
            if tab == 1:
                after = X.dump(E.eqn1_helpers(node) if node.op.unary else E.eqn2_helpers(node))
            else:
                after = X.dump(node.simplify())
            names = {}
            tb, ta = coq_exp(before, names), coq_exp(after, names)
        except Unsupported:
            skipped += 1
            continue
        except Exception as e:
            run.violation("rule-raised|%s" % (names_[k] if k is not None else "no-rule"), "a rewrite-rule function raised %s on a raw node" % type(e).__name__,
                          {"rule": names_[k] if k is not None else None, "error": repr(e)[:200], "traceback": traceback.format_exc()[-1500:]})
            continue
        run.count(("rule", tab, k, tb))
        run.hist("rule_cases", names_[k] if k is not None else "no-rule-fires", 1)
        if k is None:
            (norule if tab == 1 else norule2).append("(%s, %s)" % (tb, ta))
        else:
            (cases if tab == 1 else cases2).append("(%d%%nat, %s, %s)" % (k, tb, ta))
    # comp.restruct: compositions of registers and constants (signed and unsigned, msb set or not) in random order; the
    # model side is restruct applied to the right-nested concatenation of the SAME parts, built here, not by amoco
    rcases = []
    for _ in range(150 if quick else 2000):
        np_ = rng.randrange(2, 7)
        parts, terms, names = [], [], {}
        for j in range(np_):
            w = rng.choice([1, 2, 3, 4, 7, 8, 9, 16, 31, 32])
            if rng.random() < 0.6:
                v = rng.choice([0, 1, (1 << w) - 1, 1 << (w - 1), rng.getrandbits(w)])
                c = E.cst(v, w)
                if rng.random() < 0.4:
                    c.sf = True
                parts.append(c)
                terms.append(("cst", v, w, bool(c.sf)))
            else:
                parts.append(E.reg("r%d" % j, w))
                terms.append(("reg", "r%d" % j, w, False))
        try:
            out = X.dump(E.composer(parts))
            widths = [t[2] for t in terms]
            acc = coq_exp(terms[-1], names)
            accw = widths[-1]
            for t in reversed(terms[:-1]):
                accw += t[2]
                acc = "(ECat %s %s %d false)" % (coq_exp(t, names), acc, accw)
            rcases.append("(%s, %s)" % (acc, coq_exp(out, names)))
            run.hist("rule_cases", "restruct", 1)
            run.count(("restruct", tuple(terms)))
        except Unsupported:
            skipped += 1
        except Exception as e:
            run.violation("rule-raised|restruct", "composer raised %s on registers and constants" % type(e).__name__, {"parts": [str(t) for t in terms], "error": repr(e)[:200]})
    hdr = "From Coq Require Import ZArith List.\nImport ListNotations.\nRequire Import Amoco.Exp.Sem Amoco.Exp.Rules Amoco.Exp.Rules2.\nOpen Scope Z_scope.\n"
    texts = []
    shards = [cases[i:i + 400] for i in range(0, len(cases), 400)]
    for i, sh in enumerate(shards):
        texts.append(("rule_%03d" % i, hdr + "Definition cases : list rule_case := [\n%s\n].\nEval vm_compute in (bad_from check_rule 0 cases).\n" % ";\n".join(sh)))
    nshards = [norule[i:i + 400] for i in range(0, len(norule), 400)]
    for i, sh in enumerate(nshards):
        texts.append(("norule_%03d" % i, hdr + "Definition cases : list (exp * exp) := [\n%s\n].\nEval vm_compute in (bad_from check_norule 0 cases).\n" % ";\n".join(sh)))
    shards2 = [cases2[i:i + 400] for i in range(0, len(cases2), 400)]
    for i, sh in enumerate(shards2):
        texts.append(("rule2_%03d" % i, hdr + "Definition cases : list rule_case := [\n%s\n].\nEval vm_compute in (bad_from check_rule2 0 cases).\n" % ";\n".join(sh)))
    nshards2 = [norule2[i:i + 400] for i in range(0, len(norule2), 400)]
    for i, sh in enumerate(nshards2):
        texts.append(("norule2_%03d" % i, hdr + "Definition cases : list (exp * exp) := [\n%s\n].\nEval vm_compute in (bad_from check_norule2 0 cases).\n" % ";\n".join(sh)))
    rshards = [rcases[i:i + 400] for i in range(0, len(rcases), 400)]
    for i, sh in enumerate(rshards):
        texts.append(("restruct_%03d" % i, hdr + "Definition cases : list (exp * exp) := [\n%s\n].\nEval vm_compute in (bad_from check_restruct 0 cases).\n" % ";\n".join(sh)))
    res = common.coq_eval_many(run.work / "rules", texts)
    n_ok = 0
    for nm, sh in ([("restruct_%03d" % i, sh) for i, sh in enumerate(rshards)] + [("rule_%03d" % i, sh) for i, sh in enumerate(shards)] + [("norule_%03d" % i, sh) for i, sh in enumerate(nshards)]
                   + [("rule2_%03d" % i, sh) for i, sh in enumerate(shards2)] + [("norule2_%03d" % i, sh) for i, sh in enumerate(nshards2)]):
        rc, out = res[nm]
        lists = common.parse_nat_list(out)
        if rc != 0 or len(lists) != 1:
            run.violation("model-eval|rules", "rule model evaluation failed", {"theorem_or_correspondence": "Amoco.Exp.Rules.check_rule " + nm, "output": out[-800:]}, found_input=False)
            continue
        n_ok += len(sh)
        for idx in lists[0][:3]:
            run.violation("rule-model-impl-correspondence|" + nm.split("_")[0],
                          "a rewrite rule of eqn1_helpers/eqn2_helpers/slc.simplify/tst.simplify returns a node that differs from the Gallina model of the rule (Amoco.Exp.Rules, Rules2), "
                          "so C01_simplifier_rules_sound no longer speaks about the code",
                          {"theorem_or_correspondence": "Amoco.Exp.Rules.check_rule / check_norule", "case(rule index, node, returned node)": sh[idx][:1500]}, found_input=False)
    run.cov["rule_cases_evaluated_in_coq"] = n_ok
    run.cov["rule_cases_outside_model_syntax"] = skipped
    run.cov["traces_validated_against_impl"] = run.cov.get("traces_validated_against_impl", 0) + n_ok


def replay(path):
    obj = json.load(open(path))["replay"]
    cx = Ctx()

    r = tup(obj["recipe"])
    o = run_case(cx, r, obj["signed"], obj["threshold"], obj["envs"])
    print(o)
    return 1 if o is not None and o[0] != "skip" else 0
