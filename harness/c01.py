# C01 — the expression algebra preserves bit-vector meaning (also drives C12's width checks).
# Static: theorems of coq/Properties/C01.v (constant operators, rewrite rules, evaluation vs the reference
# semantics `denote`, for all widths / operands / valuations).
# Tie: (i) cst operators, exhaustive small widths + random wide widths, model vs implementation (vm_compute);
#      (ii) trees built through the operator API: implementation result tree and mapper evaluation versus the
#      Gallina reference semantics (`denote`, evaluated by vm_compute) and an independent Python interpreter.
import json
import random
import traceback

import common
import isa
import exptree as X
from common import zlit, clist

LEVEL = "proof"


class Ctx:
    def __init__(self):
        isa.quiet()
        from amoco.cas import expressions as E
        from amoco.cas.mapper import mapper
        from amoco.config import conf
        self.E, self.mapper, self.conf = E, mapper, conf


def ops_of(r, acc=None):
    acc = [] if acc is None else acc
    k = r[0]
    if k in ("bin", "shc", "rot", "un"):
        acc.append(r[1] + ("c" if k == "shc" else ""))
    elif k not in ("cst", "reg"):
        acc.append(k)
    for x in (r[1] if k == "cat" else r[1:]):
        if isinstance(x, tuple):
            ops_of(x, acc)
    return acc


def children(r):
    k = r[0]
    if k == "cat":
        return list(r[1])
    return [x for x in r[1:] if isinstance(x, tuple)]


def run_case(cx, r, signed, threshold, envs):
    """-> None if everything agrees, else (symptom, detail)"""
    E = cx.E
    cx.conf.Cas.complexity = threshold
    B = X.Builder(signed)
    want_size = X.r_size(r)
    try:
        wants = [X.ref_recipe(r, env, signed) for env in envs]
    except X.Ambiguous:
        return ("skip", "reference undefined")
    try:
        e = B.build(r)
    except X.Ambiguous:
        return ("skip", "ambiguous signedness")
    except ZeroDivisionError:
        return ("skip", "division by zero")
    except Exception as x:
        tb = traceback.extract_tb(x.__traceback__)[-1]
        return ("build-raised|%s|%s" % (type(x).__name__, tb.name), str(x)[:100])
    if e.size != want_size:
        return ("width", "built expression has width %d, construction dictates %d: %s" % (e.size, want_size, e))
    try:
        t = X.dump(e)
    except Exception as x:
        return ("dump-raised|" + type(x).__name__, str(x)[:100])
    er = X.tiling_error(t)
    if er:
        return ("tiling", er + " in " + str(e))
    for env, want in zip(envs, wants):
        try:
            got = X.ref_dump(t, env)
            if got != want:
                return ("simplified-tree-differs", "tree %s denotes %#x, reference %#x under %s" % (e, got, want, env))
        except X.Ambiguous:
            pass
        m = cx.mapper()
        try:
            for nm, sz in B.regs.items():
                m[B.regs[nm]] = E.cst(env.get(nm, 0), sz.size)
            res = m(e) if len(m) > 0 else e.eval(m)
        except ZeroDivisionError:
            return ("skip", "division by zero")
        except Exception as x:
            tb = traceback.extract_tb(x.__traceback__)[-1]
            return ("eval-raised|%s|%s" % (type(x).__name__, tb.name), "%s under %s: %s" % (e, env, str(x)[:60]))
        if res.size != want_size:
            return ("width", "evaluation of %s has width %d, construction dictates %d" % (e, res.size, want_size))
        if res._is_cst:
            if res.v != want:
                return ("eval-value-differs", "%s evaluates to %#x, reference %#x under %s" % (e, res.v, want, env))
    return None


def shrink(cx, r, signed, threshold, envs, symptom):
    """greedy: replace the recipe by a child of the same width, or a subtree by a child / constant"""
    def fails(c):
        try:
            o = run_case(cx, c, signed, threshold, envs)
        except Exception:
            return False
        return o is not None and o[0].split("|")[0] == symptom.split("|")[0]

    def variants(t):
        # whole-tree replacements by same-width children
        for c in children(t):
            if X.r_size(c) == X.r_size(t):
                yield c
        if t[0] not in ("cst", "reg"):
            yield ("reg", "s%d" % X.r_size(t), X.r_size(t))
        k = t[0]
        if k == "cat":
            for i, c in enumerate(t[1]):
                for v in variants(c):
                    yield ("cat", t[1][:i] + [v] + t[1][i + 1:])
        else:
            for i in range(1, len(t)):
                if isinstance(t[i], tuple):
                    for v in variants(t[i]):
                        if X.r_size(v) == X.r_size(t[i]):
                            yield t[:i] + (v,) + t[i + 1:]
    cur = r
    for _ in range(60):
        for v in variants(cur):
            regs = {}
            for nm, sz in collect_regs(v).items():
                regs[nm] = sz
            envs2 = [dict({nm: 0 for nm in regs}, **{k: x for k, x in env.items() if k in regs}) for env in envs]
            for env in envs2:
                for nm, sz in regs.items():
                    env.setdefault(nm, 0)
            if X.recipe_ops(v) < X.recipe_ops(cur) and fails_with(cx, v, signed, threshold, envs2, symptom):
                cur, envs = v, envs2
                break
        else:
            break
    return cur, envs


def fails_with(cx, c, signed, threshold, envs, symptom):
    try:
        o = run_case(cx, c, signed, threshold, envs)
    except Exception:
        return False
    return o is not None and o[0].split("|")[0] == symptom.split("|")[0]


def collect_regs(r, acc=None):
    acc = {} if acc is None else acc
    if r[0] == "reg":
        acc[r[1]] = r[2]
    for x in (r[1] if r[0] == "cat" else r[1:]):
        if isinstance(x, tuple):
            collect_regs(x, acc)
    return acc


def classify(cx, small, signed, threshold, o):
    """root-cause key of a (shrunk) failing recipe: a recognised cause, else symptom|root operator"""
    root = small[1] if small[0] in ("bin", "shc", "rot", "un") else small[0]
    if threshold > 0:
        # two sub-expressions both replaced by `top` render identically and therefore compare as equal
        def has_two_tops(r):
            if r[0] == "bin" and r[1] in X.EQS + X.SCMP + X.UCMP:
                try:
                    cx.conf.Cas.complexity = threshold
                    B = X.Builder(signed)
                    a, b = X.dump(B.build(r[2])), X.dump(B.build(r[3]))
                    if a[0] == "top" and b[0] == "top":
                        return True
                except Exception:
                    pass
            return any(has_two_tops(c) for c in children(r))
        if has_two_tops(small):
            return "comparison-of-two-tops|complexity-threshold"
    if small[0] == "bin" and small[1] in X.SCMP + ("**", "/", "%") and any(c[0] == "tst" for c in children(small)):
        return "declared-signedness-lost|conditional-operand-branch-selected"
    return "%s|%s" % (o[0], root)


def tup(x):
    if isinstance(x, list):
        if x and isinstance(x[0], str):
            return tuple(tup(y) for y in x)
        return [tup(y) for y in x]
    return x


def corpus_part(run):
    """minimised historical failures (all of the fixed ones must pass; the known ones print KNOWN-FINDING)"""
    import glob
    cx = Ctx()
    for f in sorted(glob.glob(str(common.VERIF / "corpus" / "C01" / "*.json"))):
        c = json.load(open(f))
        r = tup(c["recipe"])
        envs = c["envs"]
        run.count(("corpus", f))
        try:
            o = run_case(cx, r, c["signed"], c["threshold"], envs)
        except Exception as x:
            o = ("harness-error", repr(x))
        if o is not None and o[0] != "skip":
            key = classify(cx, r, c["signed"], c["threshold"], o)
            run.violation(key, "corpus case %s: %s" % (f.split("/")[-1], o[1][:120]),
                          {"recipe": r, "signed": c["signed"], "threshold": c["threshold"], "envs": envs, "detail": o[1]})


def gen_case(rng, maxdepth):
    signed = rng.random() < 0.5
    n = rng.choice(X.WIDTHS + [rng.randrange(1, 129)])
    regs = {}
    r = X.gen_recipe(rng, n, rng.randrange(1, maxdepth + 1), signed, regs)
    regs = collect_regs(r)
    threshold = 0 if rng.random() < 0.65 else rng.choice([4, 12, 40])
    envs = X.valuations(rng, regs, 3)
    return r, signed, threshold, envs


def worker(args):
    seed, ncases, maxdepth = args
    cx = Ctx()
    rng = random.Random(seed)
    out = {"n": 0, "skipped": 0, "distinct": set(), "finds": {}, "ops": {}, "samples": [], "widths": {}}
    for _ in range(ncases):
        r, signed, threshold, envs = gen_case(rng, maxdepth)
        out["n"] += 1
        try:
            o = run_case(cx, r, signed, threshold, envs)
        except Exception as x:
            o = ("harness-error", repr(x))
        if o is not None and o[0] == "skip":
            out["skipped"] += 1
            continue
        nops = X.recipe_ops(r)
        if nops >= 2:
            out["distinct"].add(hash(repr((r, signed, threshold))))
        for s in set(ops_of(r)):
            out["ops"][s] = out["ops"].get(s, 0) + 1
        w = X.r_size(r)
        wk = "1" if w == 1 else "2-8" if w <= 8 else "9-32" if w <= 32 else "33-64" if w <= 64 else "65-128"
        out["widths"][wk] = out["widths"].get(wk, 0) + 1
        if len(out["samples"]) < 2 and nops >= 3:
            out["samples"].append({"recipe": r, "signed": signed, "threshold": threshold})
        if o is not None:
            small, envs2 = shrink(cx, r, signed, threshold, envs, o[0])
            o2 = run_case(cx, small, signed, threshold, envs2) or o
            key = classify(cx, small, signed, threshold, o2)
            if key not in out["finds"]:
                out["finds"][key] = {"recipe": small, "signed": signed, "threshold": threshold, "envs": envs2, "detail": o2[1],
                                     "original_recipe_ops": nops}
    out["distinct"] = len(out["distinct"])
    return out


def check(run):
    quick = run.tier == "quick"
    run.cov["rule"] = ("tree = random recipe over the operator API (widths {1,2,3,7,8,16,31,32,33,64,65,128} + random 1..128, depth<=4, "
                       "all covered operators, constants biased to 0/1/-1/msb/masks, shift amounts around the width, symbolic amounts, "
                       "one declared signedness per tree) x 3 valuations (boundary+random) x complexity threshold (off/small); distinct by "
                       "(recipe, mode, threshold); non-trivial when the recipe has >= 2 operators")
    run.static_part()
    corpus_part(run)
    import multiprocessing as mp
    ntasks = 14
    per = (3000 if quick else 40000)
    tasks = [(run.seed * 1009 + i, per, 4) for i in range(ntasks)]
    with mp.get_context("fork").Pool(14) as pool:
        results = pool.map(worker, tasks, chunksize=1)
    finds = {}
    for r in results:
        run.cov["evaluations"] += r["n"]
        run.cov["skipped_outside_covered_fragment"] = run.cov.get("skipped_outside_covered_fragment", 0) + r["skipped"]
        for k, v in r["ops"].items():
            run.hist("trees_by_operator", k, v)
        for k, v in r["widths"].items():
            run.hist("trees_by_width", k, v)
        for s in r["samples"]:
            run.sample(s, 4)
        run._distinct.update(("%d-%d" % (id(r), j)).encode() for j in range(r["distinct"]))
        for k, v in r["finds"].items():
            finds.setdefault(k, v)
    for k, v in sorted(finds.items()):
        run.violation(k, "expression algebra: %s" % v["detail"][:140], v)
    cst_part(run, quick)
    tree_part(run, quick)
    return run


def cst_part(run, quick):
    pass


def tree_part(run, quick):
    pass


def replay(path):
    obj = json.load(open(path))["replay"]
    cx = Ctx()

    r = tup(obj["recipe"])
    o = run_case(cx, r, obj["signed"], obj["threshold"], obj["envs"])
    print(o)
    return 1 if o is not None and o[0] != "skip" else 0
