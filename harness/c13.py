# C13 — expressions, maps and memory behave as values.
# Static: coq/Properties/C13.v (heap of shared nodes: allocation-only steps and equivalent in-place re-shapes leave the value
# of every existing node unchanged; a non-equivalent re-shape is observable at the node).
# Tie: every node reachable from the operands of random operations (operators, simplify with each option, eval in
# concrete / partial / symbolic environments, map write/read/composition, comp assignment, merge) is dumped before and
# after by an independent walker: its width must not change and a changed shape must evaluate identically under fixed
# valuations - in the Python reference walker and in the Gallina reference semantics (Amoco.Exp.Sem.denote, vm_compute).
# Pickle: str, ==, hash, walker fingerprint and reference evaluation of loads(dumps(x)) for expressions, maps and memory.
import json
import pickle
import random
import zlib

import common
import isa
import exptree as X
import c01
from common import zlit, clist

LEVEL = "proof"
OPTS = [{}, {"bitslice": True}, {"widening": True}]


def reachable(e, acc=None, seen=None):
    """all expression objects reachable from e (by identity)"""
    acc = [] if acc is None else acc
    seen = set() if seen is None else seen
    if id(e) in seen:
        return acc
    seen.add(id(e))
    acc.append(e)
    for attr in ("l", "r", "x", "tst", "a", "base"):
        c = getattr(e, attr, None)
        if c is not None and hasattr(c, "_is_def") and not isinstance(c, (int, str)):
            reachable(c, acc, seen)
    if getattr(e, "_is_cmp", False):
        for p in e.parts.values():
            reachable(p, acc, seen)
    if getattr(e, "_is_vec", False):
        for p in e.l:
            reachable(p, acc, seen)
    return acc


def snapshot(objs):
    out = []
    for o in objs:
        try:
            out.append((o, X.dump(o), o.size))
        except Exception:
            pass
    return out


def tree_regs(d, acc):
    """register leaves (name, size) of a dumped tree"""
    if isinstance(d, (tuple, list)):
        if len(d) >= 3 and d[0] == "reg" and isinstance(d[1], str):
            acc[d[1]] = d[2]
        for c in d:
            tree_regs(c, acc)
    return acc


def has_signed(d):
    """a node of the dumped tree carries the signed flag"""
    if isinstance(d, (tuple, list)):
        return any(x is True or has_signed(x) for x in d)
    return False


def complete(env, d0, d1):
    """env extended by a fixed value for every register of the trees it does not mention (registers introduced by operations)"""
    need = tree_regs(d1, tree_regs(d0, {}))
    miss = [n for n in need if n not in env]
    if not miss:
        return env
    env = dict(env)
    for n in miss:
        env[n] = (zlib.crc32(n.encode()) * 0x9E3779B97F4A7C15 >> 7) & X.mask(need[n])
    return env


def sign_sensitive(d):
    if isinstance(d, (tuple, list)):
        if len(d) >= 4 and d[0] == "op" and d[1] in X.SCMP + ("**", "/", "%"):
            return True
        return any(sign_sensitive(x) for x in d)
    return False


def compare(snap, envs, raw=False):
    """[(kind, detail, tree0, tree1)] for watched nodes whose width or value changed"""
    bad = []
    for o, d0, n0 in snap:
        try:
            d1 = X.dump(o)
        except Exception as x:
            bad.append(("undumpable", "a watched node can no longer be walked: %r" % (x,), d0, None))
            continue
        if o.size != n0:
            bad.append(("width", "width of a watched %s node changed from %d to %d" % (d0[0], n0, o.size), d0, d1))
            continue
        if d1 == d0:
            continue
        for env in envs:
            env = complete(env, d0, d1)
            try:
                v0 = X.ref_dump(d0, env)
                v1 = X.ref_dump(d1, env)
            except (X.Ambiguous, ZeroDivisionError):
                continue
            except Exception:
                continue
            if v0 != v1 and raw and (sign_sensitive(d0) or (not has_signed(d0) and has_signed(d1))):
                # raw (un-simplified) trees only: folding -(1) gives the signed constant -1, and an ordering comparison / division
                # / widening product above it then reads its operands signed although the raw node was flagged unsigned: which
                # operation the un-simplified node denotes is amoco's conditional-operand signedness question (C01, known
                # finding), not a change of value by the operation.  Trees without sign-sensitive operators are decisive.
                bad.append(("reshaped-signedness-view", "", d0, d1))
                break
            if v0 != v1:
                bad.append(("value", "a watched %s node was re-shaped from %s into a non-equivalent form: %#x before, %#x after under %s" % (
                    d0[0], str(d0)[:80], v0, v1, env), d0, d1))
                break
        else:
            bad.append(("reshaped-equivalent", "", d0, d1))
    return bad


def apply_ops(cx, e, B, rng, watch):
    """random operations taking e (or nodes of e) as arguments; returns the list of operation names applied"""
    E = cx.E
    names = []
    regs = list(B.regs.values())
    nodes = reachable(e)
    for _ in range(rng.randrange(1, 4)):
        k = rng.randrange(13)
        sub = rng.choice(nodes)
        try:
            if k == 0:
                other = rng.choice(regs + [E.cst(rng.getrandbits(sub.size), sub.size)]) if regs else E.cst(1, sub.size)
                if other.size != sub.size:
                    other = E.cst(rng.getrandbits(sub.size), sub.size)
                sym = rng.choice(["+", "-", "^", "&", "|", "*"])
                x = E.oper(sym, sub, other) if rng.random() < 0.5 else E.oper(sym, other, sub)
                x.simplify(**rng.choice(OPTS))
                names.append("operand-of-" + sym)
            elif k == 1:
                opt = rng.choice(OPTS)
                e.simplify(**opt)
                names.append("simplify" + ("-" + list(opt)[0] if opt else ""))
            elif k == 2:
                m = cx.mapper()
                r0 = E.reg("dst%d" % rng.randrange(3), sub.size)
                m[r0] = sub
                y = m(r0 + 1) if sub.size > 1 else m(r0)
                y.simplify()
                names.append("map-write-read")
            elif k == 3:
                m = cx.mapper()
                for g in regs:
                    c = rng.random()
                    if c < 0.5:
                        m[g] = E.cst(rng.getrandbits(g.size), g.size)
                    elif c < 0.7:
                        m[g] = g + 1
                if len(m) > 0:
                    m(e)
                else:
                    e.eval(m)
                names.append("eval")
            elif k == 4:
                if sub.size >= 2:
                    a = rng.randrange(0, sub.size - 1)
                    b = rng.randrange(a + 1, sub.size + 1)
                    s = sub[a:b]
                    s.simplify(**rng.choice(OPTS))
                    names.append("slice")
            elif k == 5:
                c = E.comp(sub.size + 8)
                c[0:8] = E.cst(0xA5, 8)
                c[8:sub.size + 8] = sub
                c.simplify()
                c[0:sub.size] = sub
                names.append("comp-assign")
            elif k == 6:
                cond = E.reg("cnd", 1)
                t = E.tst(cond, sub, E.cst(0, sub.size))
                t.simplify(**rng.choice(OPTS))
                names.append("tst-branch")
            elif k == 7:
                (~sub).simplify()
                (-sub).simplify()
                names.append("unary")
            elif k == 8:
                m1, m2 = cx.mapper(), cx.mapper()
                r0 = E.reg("dst0", sub.size)
                m1[r0] = sub
                m2[r0] = sub + 1 if sub.size > 1 else sub
                from amoco.cas.mapper import merge
                merge(m1, m2)
                names.append("merge")
            elif k == 9:
                m1, m2 = cx.mapper(), cx.mapper()
                r0 = E.reg("dst1", sub.size)
                m1[r0] = sub
                for g in regs[:2]:
                    m2[g] = g ^ E.cst(1, g.size)
                (m2 >> m1)
                (m1 << m2)
                names.append("map-compose")
            elif k == 10:
                sub.zeroextend(sub.size + 3).simplify()
                sub.signextend(sub.size + 5).simplify()
                names.append("extend")
            elif k == 11 and sub.size >= 4:
                # a register written piecewise in a map (pieces of the watched expression and constants, at any offsets),
                # read at full width, used, then written piecewise again: the value read must keep its meaning
                m = cx.mapper()
                n = sub.size
                r0 = E.reg("dst%d" % rng.randrange(3), n)
                cuts = sorted({0, n} | {rng.randrange(1, n) for _ in range(rng.randrange(1, 4))})
                pieces = list(zip(cuts, cuts[1:]))
                for lo, hi in rng.sample(pieces, rng.randrange(1, len(pieces) + 1)):
                    m[r0[lo:hi]] = sub[lo:hi] if rng.random() < 0.5 else E.cst(rng.getrandbits(hi - lo), hi - lo)
                got = m[r0] if rng.random() < 0.5 else m(r0)
                watch.extend(snapshot(reachable(got)))
                use = rng.randrange(4)
                if use == 0:
                    (got + 1).simplify()
                elif use == 1:
                    got.simplify(**rng.choice(OPTS))
                elif use == 2:
                    m[E.reg("other", n)] = got
                lo, hi = rng.choice(pieces)
                m[r0[lo:hi]] = E.cst(rng.getrandbits(hi - lo), hi - lo)
                names.append("map-partial-write")
            else:
                x = (sub == sub)
                x.simplify()
                y = E.oper("<", sub, E.cst(3, sub.size))
                y.simplify(**rng.choice(OPTS))
                names.append("compare")
        except (MemoryError, RecursionError):
            raise
        except Exception:
            names.append("op%d-raised" % k)      # raising is C01's subject
    return names


class CaseTimeout(BaseException):
    pass


def _alarm(signum, frame):
    raise CaseTimeout()


def worker(args):
    import signal
    import resource
    seed, ncases = args
    cx = c01.Ctx()
    rng = random.Random(seed)
    out = {"n": 0, "finds": {}, "ops": {}, "reshaped": [], "nontrivial": 0, "samples": []}
    signal.signal(signal.SIGALRM, _alarm)
    resource.setrlimit(resource.RLIMIT_AS, (3 << 30, 3 << 30))
    for _ in range(ncases):
        r, signed, threshold, envs = c01.gen_case(rng, 4)
        cx.conf.Cas.complexity = threshold
        # half of the trees are made of raw nodes: they reach the operations un-simplified, so in-place rewriting happens there
        raw = rng.random() < 0.5
        B = X.Builder(signed, raw=raw)
        try:
            e = B.build(r)
        except Exception:
            continue
        out["n"] += 1
        snap = snapshot(reachable(e))
        signal.alarm(20)
        try:
            names = apply_ops(cx, e, B, rng, snap)
            bad = compare(snap, envs, raw)
        except CaseTimeout:
            names, bad = ["timeout"], []
        except (MemoryError, RecursionError):
            names, bad = ["resource"], []
        finally:
            signal.alarm(0)
        for nm in names:
            out["ops"][nm] = out["ops"].get(nm, 0) + 1
        if len(snap) >= 3:
            out["nontrivial"] += 1
        for kind, detail, d0, d1 in bad:
            if kind == "reshaped-signedness-view":
                out["ops"]["(signedness-view re-shapes)"] = out["ops"].get("(signedness-view re-shapes)", 0) + 1
                continue
            if kind == "reshaped-equivalent":
                if len(out["reshaped"]) < 40:
                    out["reshaped"].append((d0, d1, envs))
                continue
            key = "%s|%s|%s" % (kind, "+".join(sorted(set(names))), d0[0])
            if key not in out["finds"]:
                out["finds"][key] = {"recipe": r, "signed": signed, "threshold": threshold, "ops": names, "detail": detail}
        if len(out["samples"]) < 1:
            out["samples"].append({"recipe": r, "ops": names, "watched_nodes": len(snap)})
    return out


def pickle_part(run, quick):
    cx = c01.Ctx()
    E = cx.E
    rng = random.Random(run.seed * 2741 + 13)
    from amoco.system.memory import MemoryMap
    for t in range(400 if quick else 8000):
        r, signed, threshold, envs = c01.gen_case(rng, 4)
        B = X.Builder(signed)
        try:
            e = B.build(r)
        except Exception:
            continue
        kind = rng.choice(["exp", "exp", "simplified", "mapper", "memory"])
        rep = {"recipe": r, "signed": signed, "object": kind}
        try:
            if kind == "simplified":
                e = e.simplify()
            if rng.random() < 0.4:
                # a signed / unsigned view of an inner slice or operation (its flag then differs from its operands')
                inner = [x for x in reachable(e) if (x._is_slc or x._is_eqn) and x is not e]
                if inner:
                    x = rng.choice(inner)
                    x.sf = not x.sf
            if kind in ("exp", "simplified"):
                obj = e
            elif kind == "mapper":
                obj = cx.mapper()
                obj[E.reg("dst0", e.size)] = e
                obj[E.mem(E.reg("ptr", 32), e.size)] = e
                for g in list(B.regs.values())[:2]:
                    obj[g] = g + 1
            else:
                obj = MemoryMap()
                obj.write(0x1000, b"abcdefgh")
                obj.write(0x1004, e, endian=rng.choice([1, -1]))
                obj.write(E.ptr(E.reg("ptr", 32), disp=4), e, endian=rng.choice([1, -1]))
                if rng.random() < 0.5 and e.size % 8 == 0 and e.size >= 16:
                    obj.write(E.ptr(E.reg("ptr", 32), disp=4 + max(1, e.size // 16)), E.cst(0x5A, 8))
                if e.size % 8 == 0:
                    # a further history of constant / symbolic stores that extend, trim and split what is there
                    for _w in range(rng.randrange(0, 5)):
                        off = rng.randrange(0, 14)
                        tgt = (0x1000 + off) if rng.random() < 0.5 else E.ptr(E.reg("ptr", 32), disp=off)
                        c = rng.random()
                        val = rng.randbytes(rng.randrange(1, 7)) if c < 0.6 else (E.reg("y%d" % _w, rng.choice([8, 16, 32])) if c < 0.85 else e)
                        obj.write(tgt, val)
            blob = pickle.dumps(obj)
            back = pickle.loads(blob)
        except Exception as x:
            run.violation("pickle|raised|%s|%s" % (kind, type(x).__name__), "pickling a %s raised %r" % (kind, x), rep)
            continue
        run.count(("pickle", kind, str(r)), nontrivial=X.recipe_ops(r) >= 2)
        run.hist("pickle_kind", kind)
        bad = None
        if str(back) != str(obj):
            bad = ("str", "str() of the restored %s differs: %s vs %s" % (kind, str(back)[:80], str(obj)[:80]))
        elif kind in ("exp", "simplified"):
            if not (back == obj) or hash(back) != hash(obj):
                bad = ("eq", "restored expression does not compare / hash equal")
            elif X.dump(back) != X.dump(obj):
                bad = ("fingerprint", "walker fingerprint of the restored expression differs: %s vs %s" % (str(X.dump(back))[:100], str(X.dump(obj))[:100]))
            else:
                for env in envs:
                    try:
                        if X.ref_dump(X.dump(back), env) != X.ref_dump(X.dump(obj), env):
                            bad = ("value", "restored expression evaluates differently")
                    except Exception:
                        pass
        elif kind == "mapper":
            if not (back == obj):
                bad = ("eq", "restored mapper does not compare equal")
            else:
                for loc in [E.reg("dst0", e.size)] + list(B.regs.values())[:2]:
                    if X.dump(back[loc]) != X.dump(obj[loc]):
                        bad = ("fingerprint", "restored mapper holds a different expression for %s" % loc)
        else:
            # a restored map and a copy of the map read like the map itself, at every offset and length
            nb = max(1, e.size // 8)
            try:
                cp = obj.copy()
            except Exception as x:
                cp = None
                bad = ("copy-raised", "MemoryMap.copy raised %r" % (x,))
            P = E.reg("ptr", 32)
            addrs = [(0x1000, 4), (0x1002, 4), (0x1004, 4), (0x1004, nb), (0x1005, max(1, nb - 1)), (0x1004 + nb - 1, 2)]
            addrs += [(E.ptr(P, disp=4 + o), l) for o in range(0, nb + 1) for l in (1, 2, nb) if l <= nb + 2]
            addrs += [(0x1000 + o, l) for o in range(0, 20, 1) for l in (1, 2, 4)] + [(E.ptr(P, disp=o), l) for o in range(0, 20) for l in (1, 2, 4)]
            for a, l in addrs:
                def rd(mm):
                    try:
                        out = []
                        for x in mm.read(a, l):
                            x = bytes(x) if isinstance(x, (bytes, bytearray)) else X.dump(x)
                            if isinstance(x, bytes) and out and isinstance(out[-1], bytes):
                                out[-1] += x          # how raw bytes are cut into objects is not part of what is read
                            else:
                                out.append(x)
                        return out
                    except Exception as x:
                        return ("raised", type(x).__name__)
                def same(r1, r2):
                    """equal reads; a constant kept as an expression in one map and as raw bytes in the other is the same content
                    (the byte order of the expression is the one it was stored with: either reading must match)"""
                    if r1 == r2:
                        return True
                    if not isinstance(r1, list) or not isinstance(r2, list):
                        return False
                    for en in ("little", "big"):
                        def norm(r):
                            out = []
                            for x in r:
                                if isinstance(x, tuple) and x and x[0] == "cst" and x[2] % 8 == 0:
                                    x = (x[1] & ((1 << x[2]) - 1)).to_bytes(x[2] // 8, en)
                                if isinstance(x, bytes) and out and isinstance(out[-1], bytes):
                                    out[-1] += x
                                else:
                                    out.append(x)
                            return out
                        if norm(r1) == norm(r2):
                            return True
                    return False
                if bad is None and not same(rd(obj), rd(back)):
                    bad = ("memory-read", "restored memory reads differently at %s (%d bytes)" % (a, l))
                if bad is None and cp is not None and not same(rd(obj), rd(cp)):
                    sa, sb = str(rd(cp)), str(rd(obj))
                    k = next((i for i in range(min(len(sa), len(sb))) if sa[i] != sb[i]), 0)
                    bad = ("memory-copy-read", "a copy of the memory map reads differently at %s (%d bytes): ...%s vs ...%s" % (a, l, sa[max(0, k - 60):k + 60], sb[max(0, k - 60):k + 60]))
        if bad:
            run.violation("pickle|%s|%s" % (kind, bad[0]), bad[1], rep)


def check(run):
    quick = run.tier == "quick"
    isa.load_all()
    run.cov["rule"] = ("recipes as in C01 (widths 1..128, depth <= 4); every node reachable from the built expression is watched while 1-3 random "
                       "operations use it or one of its nodes as an argument: binary operators (either side) + simplify (plain / bitslice / widening), "
                       "in-place simplify, map write/read, eval (concrete/partial/symbolic), slices, comp assignment, tst branches, unary operators, "
                       "merge, map composition, extensions, comparisons; pickle round trips of expressions, simplified expressions, mappers and "
                       "memory maps; distinct by (recipe, operations); non-trivial when >= 3 nodes are watched")
    import multiprocessing as mp
    import gc
    tasks = [(run.seed * 4099 + i, 500 if quick else 9000) for i in range(14)]
    gc.collect()
    gc.freeze()
    with mp.get_context("fork").Pool(14) as pool:
        results = pool.map(worker, tasks, chunksize=1)
    run.static_part()
    reshaped = []
    for r in results:
        run.cov["evaluations"] += r["n"]
        run._distinct.update(("%d-%d" % (id(r), j)).encode() for j in range(r["nontrivial"]))
        for k, v in r["ops"].items():
            run.cov.setdefault("operations", {})[k] = run.cov.setdefault("operations", {}).get(k, 0) + v
        for s in r["samples"]:
            run.sample(s, 3)
        reshaped += r["reshaped"]
        for k, v in sorted(r["finds"].items()):
            run.violation(k, "value semantics: %s (operations %s)" % (v["detail"][:200], v["ops"]), v)
    # re-shaped nodes: before/after trees must denote the same in the Gallina reference semantics
    rows, meta = [], []
    for d0, d1, envs in reshaped[:400]:
        try:
            names = {}
            t0, t1 = c01.coq_exp(d0, names), c01.coq_exp(d1, names)
        except Exception:
            continue
        for env in envs[:2]:
            try:
                v = X.ref_dump(d0, env)
            except Exception:
                continue
            envl = clist(["(%d, %s)" % (i, zlit(env.get(nm, 0))) for nm, i in names.items()])
            rows.append("(%s, %s, %s)" % (t0, envl, zlit(v)))
            rows.append("(%s, %s, %s)" % (t1, envl, zlit(v)))
            meta.append((d0, d1, env))
    run.cov["reshaped_nodes_seen"] = len(reshaped)
    if rows:
        c01.tree_part(run, rows)
    pickle_part(run, quick)
    run.cov["trusted_base"] += ["harness/exptree.py walker (dump, ref_dump) and harness/c13.py object-graph traversal (reachable)"]
    run.assumptions += ["nodes whose reference value is ambiguous (top, memory, mixed signedness) are compared by shape and width only",
                        "operations that raise are C01's subject; the watch still applies to the nodes they touched before raising"]
    return run


def replay(path):
    obj = json.load(open(path))["replay"]
    isa.load_all()
    cx = c01.Ctx()
    if "recipe" in obj and "ops" in obj:
        print(obj["ops"], obj.get("detail"))
        return 1
    print(obj)
    return 1
