# C13 — expressions, maps and memory behave as values.
# Static: coq/Properties/C13.v (heap of shared nodes: allocation-only steps and equivalent in-place re-shapes leave the value
# of every existing node unchanged; a non-equivalent re-shape is observable at the node).
# Tie: every node reachable from the operands of random operations (operators, simplify with each option, eval in
# concrete / partial / symbolic environments, map write/read/composition, comp assignment, merge) is dumped before and
# after by an independent walker: its width must not change and a changed shape must evaluate identically under fixed
# valuations - in the Python reference walker and in the Gallina reference semantics (Amoco.Exp.Sem.denote, vm_compute).
# Vec operands: expressions that are SETS of alternatives (flat / nested vecs with top, bottom and widened alternatives, inside
# operators, slices, conditionals, compositions and map values) are compared as the set of values they denote (vec_case, den).
# Pickle: str, ==, hash, walker fingerprint and reference evaluation of loads(dumps(x)) for expressions, maps and memory.
import json
import pickle
import random
import zlib

import common
import isa
import exptree as X
import c01
from common import zlit, clist

LEVEL = "proof"
OPTS = [{}, {"bitslice": True}, {"widening": True}]


def reachable(e, acc=None, seen=None):
    """all expression objects reachable from e (by identity)"""
    acc = [] if acc is None else acc
    seen = set() if seen is None else seen
    if id(e) in seen:
        return acc
    seen.add(id(e))
    acc.append(e)
    for attr in ("l", "r", "x", "tst", "a", "base"):
        c = getattr(e, attr, None)
        if c is not None and hasattr(c, "_is_def") and not isinstance(c, (int, str)):
            reachable(c, acc, seen)
    if getattr(e, "_is_cmp", False):
        for p in e.parts.values():
            reachable(p, acc, seen)
    if getattr(e, "_is_vec", False):
        for p in e.l:
            reachable(p, acc, seen)
    return acc


def snapshot(objs):
    out = []
    for o in objs:
        try:
            out.append((o, X.dump(o), o.size))
        except Exception:
            pass
    return out


def tree_regs(d, acc):
    """register leaves (name, size) of a dumped tree"""
    if isinstance(d, (tuple, list)):
        if len(d) >= 3 and d[0] == "reg" and isinstance(d[1], str):
            acc[d[1]] = d[2]
        for c in d:
            tree_regs(c, acc)
    return acc


def has_signed(d):
    """a node of the dumped tree carries the signed flag"""
    if isinstance(d, (tuple, list)):
        return any(x is True or has_signed(x) for x in d)
    return False


def complete(env, d0, d1):
    """env extended by a fixed value for every register of the trees it does not mention (registers introduced by operations)"""
    need = tree_regs(d1, tree_regs(d0, {}))
    miss = [n for n in need if n not in env]
    if not miss:
        return env
    env = dict(env)
    for n in miss:
        env[n] = (zlib.crc32(n.encode()) * 0x9E3779B97F4A7C15 >> 7) & X.mask(need[n])
    return env


def sign_sensitive(d):
    if isinstance(d, (tuple, list)):
        if len(d) >= 4 and d[0] == "op" and d[1] in X.SCMP + ("**", "/", "%"):
            return True
        return any(sign_sensitive(x) for x in d)
    return False


def compare(snap, envs, raw=False):
    """[(kind, detail, tree0, tree1)] for watched nodes whose width or value changed"""
    bad = []
    for o, d0, n0 in snap:
        try:
            d1 = X.dump(o)
        except Exception as x:
            bad.append(("undumpable", "a watched node can no longer be walked: %r" % (x,), d0, None))
            continue
        if o.size != n0:
            bad.append(("width", "width of a watched %s node changed from %d to %d" % (d0[0], n0, o.size), d0, d1))
            continue
        if d1 == d0:
            continue
        for env in envs:
            env = complete(env, d0, d1)
            try:
                v0 = X.ref_dump(d0, env)
                v1 = X.ref_dump(d1, env)
            except (X.Ambiguous, ZeroDivisionError):
                continue
            except Exception:
                continue
            if v0 != v1 and raw and (sign_sensitive(d0) or (not has_signed(d0) and has_signed(d1))):
                # raw (un-simplified) trees only: folding -(1) gives the signed constant -1, and an ordering comparison / division
                # / widening product above it then reads its operands signed although the raw node was flagged unsigned: which
                # operation the un-simplified node denotes is amoco's conditional-operand signedness question (C01, known
                # finding), not a change of value by the operation.  Trees without sign-sensitive operators are decisive.
                bad.append(("reshaped-signedness-view", "", d0, d1))
                break
            if v0 != v1:
                bad.append(("value", "a watched %s node was re-shaped from %s into a non-equivalent form: %#x before, %#x after under %s" % (
                    d0[0], str(d0)[:80], v0, v1, env), d0, d1))
                break
        else:
            bad.append(("reshaped-equivalent", "", d0, d1))
    return bad


def apply_ops(cx, e, B, rng, watch, OPTS=OPTS):
    """random operations taking e (or nodes of e) as arguments; returns the list of operation names applied (OPTS: the simplify
    options they draw from)"""
    E = cx.E
    names = []
    regs = list(B.regs.values())
    nodes = reachable(e)
    for _ in range(rng.randrange(1, 4)):
        k = rng.randrange(13)
        sub = rng.choice(nodes)
        try:
            if k == 0:
                other = rng.choice(regs + [E.cst(rng.getrandbits(sub.size), sub.size)]) if regs else E.cst(1, sub.size)
                if other.size != sub.size:
                    other = E.cst(rng.getrandbits(sub.size), sub.size)
                sym = rng.choice(["+", "-", "^", "&", "|", "*"])
                x = E.oper(sym, sub, other) if rng.random() < 0.5 else E.oper(sym, other, sub)
                x.simplify(**rng.choice(OPTS))
                names.append("operand-of-" + sym)
            elif k == 1:
                opt = rng.choice(OPTS)
                e.simplify(**opt)
                names.append("simplify" + ("-" + list(opt)[0] if opt else ""))
            elif k == 2:
                m = cx.mapper()
                r0 = E.reg("dst%d" % rng.randrange(3), sub.size)
                m[r0] = sub
                y = m(r0 + 1) if sub.size > 1 else m(r0)
                y.simplify()
                names.append("map-write-read")
            elif k == 3:
                m = cx.mapper()
                for g in regs:
                    c = rng.random()
                    if c < 0.5:
                        m[g] = E.cst(rng.getrandbits(g.size), g.size)
                    elif c < 0.7:
                        m[g] = g + 1
                if len(m) > 0:
                    m(e)
                else:
                    e.eval(m)
                names.append("eval")
            elif k == 4:
                if sub.size >= 2:
                    a = rng.randrange(0, sub.size - 1)
                    b = rng.randrange(a + 1, sub.size + 1)
                    s = sub[a:b]
                    s.simplify(**rng.choice(OPTS))
                    names.append("slice")
            elif k == 5:
                c = E.comp(sub.size + 8)
                c[0:8] = E.cst(0xA5, 8)
                c[8:sub.size + 8] = sub
                c.simplify()
                c[0:sub.size] = sub
                names.append("comp-assign")
            elif k == 6:
                cond = E.reg("cnd", 1)
                t = E.tst(cond, sub, E.cst(0, sub.size))
                t.simplify(**rng.choice(OPTS))
                names.append("tst-branch")
            elif k == 7:
                (~sub).simplify()
                (-sub).simplify()
                names.append("unary")
            elif k == 8:
                m1, m2 = cx.mapper(), cx.mapper()
                r0 = E.reg("dst0", sub.size)
                m1[r0] = sub
                m2[r0] = sub + 1 if sub.size > 1 else sub
                from amoco.cas.mapper import merge
                merge(m1, m2)
                names.append("merge")
            elif k == 9:
                m1, m2 = cx.mapper(), cx.mapper()
                r0 = E.reg("dst1", sub.size)
                m1[r0] = sub
                for g in regs[:2]:
                    m2[g] = g ^ E.cst(1, g.size)
                (m2 >> m1)
                (m1 << m2)
                names.append("map-compose")
            elif k == 10:
                sub.zeroextend(sub.size + 3).simplify()
                sub.signextend(sub.size + 5).simplify()
                names.append("extend")
            elif k == 11 and sub.size >= 4:
                # a register written piecewise in a map (pieces of the watched expression and constants, at any offsets),
                # read at full width, used, then written piecewise again: the value read must keep its meaning
                m = cx.mapper()
                n = sub.size
                r0 = E.reg("dst%d" % rng.randrange(3), n)
                cuts = sorted({0, n} | {rng.randrange(1, n) for _ in range(rng.randrange(1, 4))})
                pieces = list(zip(cuts, cuts[1:]))
                for lo, hi in rng.sample(pieces, rng.randrange(1, len(pieces) + 1)):
                    m[r0[lo:hi]] = sub[lo:hi] if rng.random() < 0.5 else E.cst(rng.getrandbits(hi - lo), hi - lo)
                got = m[r0] if rng.random() < 0.5 else m(r0)
                watch.extend(snapshot(reachable(got)))
                use = rng.randrange(4)
                if use == 0:
                    (got + 1).simplify()
                elif use == 1:
                    got.simplify(**rng.choice(OPTS))
                elif use == 2:
                    m[E.reg("other", n)] = got
                lo, hi = rng.choice(pieces)
                m[r0[lo:hi]] = E.cst(rng.getrandbits(hi - lo), hi - lo)
                names.append("map-partial-write")
            else:
                x = (sub == sub)
                x.simplify()
                y = E.oper("<", sub, E.cst(3, sub.size))
                y.simplify(**rng.choice(OPTS))
                names.append("compare")
        except (MemoryError, RecursionError):
            raise
        except Exception:
            names.append("op%d-raised" % k)      # raising is C01's subject
    return names


# ------------------------------------------------------------------------------------------
# operands are used AGAIN after the operations (a value can be used any number of times)
# ------------------------------------------------------------------------------------------
def comp_index_error(o):
    """a composite's bit index (smask: bit -> key of the part holding that bit) must agree with its parts whenever the parts
    tile the composite: the index is what slicing and partial assignment consult"""
    keys = sorted(o.parts)
    cur = 0
    for lo, hi in keys:
        if lo != cur:
            return None                      # not (yet) tiled: under construction, nothing to say
        cur = hi
    if cur != o.size:
        return None
    if len(o.smask) != o.size:
        return "bit index of %d entries in a %d-bit composite" % (len(o.smask), o.size)
    for lo, hi in keys:
        for i in range(lo, hi):
            if o.smask[i] != (lo, hi):
                return "bit %d is indexed to part %s but lies in part [%d:%d] (parts %s)" % (i, o.smask[i], lo, hi, keys)
    return None


def _same_shape(o, d0):
    try:
        return X.dump(o) == d0
    except Exception:
        return False


def reuse_plan(rng, snap):
    """(node, tree before, lo, hi): slices - at positions that need not be part boundaries - taken before the operations and
    again after them; composites first"""
    cands = [t for t in snap if t[2] >= 2]
    comps = [t for t in cands if t[1][0] == "comp"]
    pick = comps[:3] + (rng.sample(cands, min(3, len(cands))) if cands else [])
    plan = []
    for o, d0, n in pick:
        for _ in range(3):
            a = rng.randrange(0, n - 1)
            b = rng.randrange(a + 1, n + 1)
            plan.append((o, d0, a, b))
    return plan


def reuse(cx, plan, root, env):
    """outcomes of using the operands once more: every planned slice (width, tree), and the root evaluated in a map that gives
    every register of env a constant"""
    out = []
    for o, d0, a, b in plan:
        try:
            s = o[a:b]
            out.append((s.size, X.dump(s)))
        except (MemoryError, RecursionError):
            raise
        except Exception as x:
            out.append(("raised", type(x).__name__ + ": " + str(x)[:60]))
    try:
        m = cx.mapper()
        for nm, (r, v) in env.items():
            m[r] = cx.E.cst(v & X.mask(r.size), r.size)
        v = root.eval(m) if len(m) else root
        out.append((v.size, X.dump(v)))
    except (MemoryError, RecursionError):
        raise
    except Exception as x:
        out.append(("raised", type(x).__name__ + ": " + str(x)[:60]))
    return out


def compare_reuse(snap, plan, before, after, envs, raw):
    """[(kind, detail, tree0, tree1)]: a use that worked before the operations and fails, has another width or another value after"""
    bad = []
    for o, d0, n0 in snap:
        if d0[0] == "comp" and getattr(o, "_is_cmp", False):
            er = comp_index_error(o)
            if er:
                bad.append(("index", "the bit index of a watched composite no longer matches its parts: " + er, d0, None))
                break
    items = [("slice [%d:%d]" % (a, b), d0) for o, d0, a, b in plan] + [("evaluation in a constant map", snap[0][1] if snap else None)]
    unchanged = bool(snap) and _same_shape(snap[0][0], snap[0][1])
    for (label, d0), u0, u1 in zip(items, before, after):
        if u0[0] == "raised" or u0 == u1:
            continue
        if label.startswith("evaluation") and not unchanged:
            # the root was re-shaped in place (into an equivalent form, checked by compare): whether amoco evaluates both forms
            # alike is C01's subject; a node whose shape is what it was must evaluate as it did
            continue
        if u1[0] == "raised":
            bad.append(("reuse-raised", "%s of a watched %s node worked before the operations and raises after them: %s" % (label, d0[0], u1[1]), d0, None))
            continue
        if u1[0] != u0[0]:
            bad.append(("reuse-width", "%s of a watched %s node is %d bits wide before the operations and %d after" % (label, d0[0], u0[0], u1[0]), d0, u1[1]))
            continue
        if raw and (sign_sensitive(u0[1]) or sign_sensitive(u1[1])):
            continue
        for env in envs:
            env = complete(env, u0[1], u1[1])
            try:
                v0, v1 = X.ref_dump(u0[1], env), X.ref_dump(u1[1], env)
            except Exception:
                continue
            if v0 != v1:
                bad.append(("reuse-value", "%s of a watched %s node denotes %#x before the operations and %#x after under %s" % (label, d0[0], v0, v1, env), u0[1], u1[1]))
                break
    return bad


class CaseTimeout(BaseException):
    pass


def _alarm(signum, frame):
    raise CaseTimeout()


def worker(args):
    import signal
    import resource
    seed, ncases = args
    cx = c01.Ctx()
    rng = random.Random(seed)
    out = {"n": 0, "finds": {}, "ops": {}, "reshaped": [], "nontrivial": 0, "samples": []}
    signal.signal(signal.SIGALRM, _alarm)
    resource.setrlimit(resource.RLIMIT_AS, (3 << 30, 3 << 30))
    for _ in range(ncases):
        r, signed, threshold, envs = c01.gen_case(rng, 4)
        cx.conf.Cas.complexity = threshold
        # half of the trees are made of raw nodes: they reach the operations un-simplified, so in-place rewriting happens there
        raw = rng.random() < 0.5
        B = X.Builder(signed, raw=raw)
        try:
            e = B.build(r)
        except Exception:
            continue
        out["n"] += 1
        snap = snapshot(reachable(e))
        signal.alarm(20)
        try:
            plan = reuse_plan(rng, snap)
            cenv = {nm: (g, envs[0].get(nm, 0)) for nm, g in B.regs.items()}
            used0 = reuse(cx, plan, e, cenv)
            names = apply_ops(cx, e, B, rng, snap)
            bad = compare(snap, envs, raw)
            used1 = reuse(cx, plan, e, cenv)
            if not any(b[0] in ("value", "width", "undumpable") for b in bad):
                bad += compare_reuse(snap, plan, used0, used1, envs, raw)
        except CaseTimeout:
            names, bad = ["timeout"], []
        except (MemoryError, RecursionError):
            names, bad = ["resource"], []
        finally:
            signal.alarm(0)
        for nm in names:
            out["ops"][nm] = out["ops"].get(nm, 0) + 1
        if len(snap) >= 3:
            out["nontrivial"] += 1
        for kind, detail, d0, d1 in bad:
            if kind == "reshaped-signedness-view":
                out["ops"]["(signedness-view re-shapes)"] = out["ops"].get("(signedness-view re-shapes)", 0) + 1
                continue
            if kind == "reshaped-equivalent":
                if len(out["reshaped"]) < 40:
                    out["reshaped"].append((d0, d1, envs))
                continue
            key = "%s|%s|%s" % (kind, "+".join(sorted(set(names))), d0[0])
            if kind == "index" or kind.startswith("reuse-"):
                key = "%s|%s" % (kind, d0[0])         # any of the uses (the re-use itself included) may be the one that broke the operand
            if key not in out["finds"]:
                out["finds"][key] = {"recipe": r, "signed": signed, "threshold": threshold, "ops": names, "detail": detail}
        if len(out["samples"]) < 1:
            out["samples"].append({"recipe": r, "ops": names, "watched_nodes": len(snap)})
    return out


# ------------------------------------------------------------------------------------------
# maps (mapper, MemoryMap) are values too: operands of copy / use / composition / merge keep reading what they read, whatever
# is stored into the results afterwards, and go on behaving like a map that never was an operand
# ------------------------------------------------------------------------------------------
M_ARCH = [("A0", 32), ("A1", 32), ("A2", 64), ("A3", 16)]      # registers the maps write (at any sub-range)
M_SRC = [("s0", 32), ("s1", 32), ("s2", 64), ("s3", 16)]       # registers the written values are made of
M_ABS = 0x1000
M_SUB = [(0, 8), (8, 16), (0, 16), (4, 12), (3, 4), (8, 24), (16, 32), (12, 16), (24, 64), (0, 64)]


def mgen_val(rng, n, depth=2):
    """descriptor of an n-bit value over the source / architectural registers (descriptors are built once per map: two maps
    made from the same descriptors share no expression object)"""
    c = rng.random()
    if c < 0.2 or (depth == 0 and c < 0.4):
        return ("c", rng.getrandbits(n), n)
    if c < 0.65:
        cands = [(nm, sz) for nm, sz in M_SRC + M_ARCH if sz >= n]
        if cands:
            nm, sz = rng.choice(cands)
            pos = rng.choice([0, sz - n, rng.randrange(0, sz - n + 1)])
            return ("s", nm, pos, n)
    if c < 0.78 and depth > 0:
        return ("op", rng.choice("+^&|-"), mgen_val(rng, n, depth - 1), mgen_val(rng, n, 0))
    if n >= 2:
        cut = rng.randrange(1, n)
        if n >= 16 and rng.random() < 0.7:
            cut = 8 * rng.randrange(1, n // 8)
        return ("cat", [mgen_val(rng, cut, max(depth - 1, 0)), mgen_val(rng, n - cut, max(depth - 1, 0))])
    return ("c", rng.getrandbits(n), n)


def mval_size(d):
    return d[2] if d[0] == "c" else d[3] if d[0] == "s" else mval_size(d[2]) if d[0] == "op" else sum(mval_size(x) for x in d[1])


def mbuild_val(E, regs, d):
    k = d[0]
    if k == "c":
        return E.cst(d[1], d[2])
    if k == "s":
        r = regs[d[1]]
        return r if (d[2] == 0 and d[3] == r.size) else r[d[2]:d[2] + d[3]]
    if k == "op":
        return E.oper(d[1], mbuild_val(E, regs, d[2]), mbuild_val(E, regs, d[3]))
    return E.composer([mbuild_val(E, regs, x) for x in d[1]])


def mgen_write(rng, memory=True, consts=False):
    """descriptor of one write into a map"""
    c = rng.random()
    if consts and c < 0.6:
        nm, sz = rng.choice(M_SRC)
        return ("reg", nm, 0, sz, ("c", rng.getrandbits(sz), sz))           # a source register made concrete
    if c < 0.5 or not memory:
        nm, sz = rng.choice(M_ARCH)
        if rng.random() < 0.75:
            lo = 8 * rng.randrange(sz // 8)
            hi = lo + 8 * rng.randrange(1, (sz - lo) // 8 + 1)
        else:
            lo = rng.randrange(0, sz - 1)
            hi = rng.randrange(lo + 1, sz + 1)
        return ("reg", nm, lo, hi, mgen_val(rng, hi - lo))
    base = rng.choice(["abs", "p"])
    disp = rng.randrange(-3, 16)
    if c < 0.72:
        return ("mem", base, disp, mgen_val(rng, 8 * rng.choice([1, 2, 4, 4, 8])), rng.choice([1, 1, -1]))
    if c < 0.88:
        return ("raw", base, disp, bytes(rng.getrandbits(8) for _ in range(rng.randrange(1, 10))))
    return ("mmw", base, disp, mgen_val(rng, 8 * rng.choice([1, 2, 4, 8])), rng.choice([1, 1, -1]))


def mregs(E):
    regs = {nm: E.reg(nm, sz) for nm, sz in M_ARCH + M_SRC}
    regs["p"] = E.reg("p", 32)
    return regs


def mbase(E, regs, base):
    return E.cst(M_ABS, 32) if base == "abs" else regs["p"]


def mapply(cx, m, regs, w):
    """one write, through the public interface of the map (register / sub-register / memory assignment, raw memory write)"""
    E = cx.E
    if w[0] == "reg":
        r = regs[w[1]]
        loc = r if (w[2] == 0 and w[3] == r.size) else E.slc(r, w[2], w[3] - w[2])
        m[loc] = mbuild_val(E, regs, w[4])
    elif w[0] == "mem":
        v = mbuild_val(E, regs, w[3])
        m[E.mem(mbase(E, regs, w[1]), v.size, disp=w[2], endian=w[4])] = v
    elif w[0] == "raw":
        m.mmap.write(E.ptr(mbase(E, regs, w[1]), disp=w[2]), w[3])
    else:
        v = mbuild_val(E, regs, w[3])
        m.mmap.write(E.ptr(mbase(E, regs, w[1]), disp=w[2]), v, w[4])


def mmake(cx, prog):
    m = cx.mapper()
    regs = mregs(cx.E)
    for w in prog:
        mapply(cx, m, regs, w)
    return m, regs


# Genuine finding on the unchanged tree, pending triage (reported, not listed): mapper.M() returns the stored object itself when
# a read matches a stored expression exactly and then writes the reading expression's sign flag into it (res.sf = k.sf), so
# reading a map changes the flag of the value it stores.  With the constant False the flags inside memory references are not
# part of their name and the stored pairs are not compared across reads; set it True to watch them.
WATCH_SIGN_FLAGS_OF_STORED_VALUES = True


def no_flags(d):
    if isinstance(d, bool):
        return False
    if isinstance(d, tuple):
        return tuple(no_flags(x) for x in d)
    if isinstance(d, list):
        return [no_flags(x) for x in d]
    return d


def mstored(m):
    """the (location, value) pairs a mapper records, dumped"""
    out = []
    for loc, v in m:
        try:
            out.append((X.dump(loc), X.dump(v)))
        except Exception:
            out.append(None)
    return out


def opaque(d):
    """dumped tree in which every memory reference is a free symbol named after its shape (the walker then evaluates what is
    around it)"""
    if isinstance(d, tuple):
        if d and d[0] == "mem":
            nm = d if WATCH_SIGN_FLAGS_OF_STORED_VALUES else no_flags(d)
            return ("reg", "mem#%08x" % zlib.crc32(repr(nm).encode()), d[2], d[3])
        return tuple(opaque(x) for x in d)
    if isinstance(d, list):
        return [opaque(x) for x in d]
    return d


def small(x, budget=1500):
    """the expression has at most budget nodes (memory references that carry the stores they may alias nest quickly)"""
    todo = [x]
    while todo:
        e = todo.pop()
        budget -= 1
        if budget < 0:
            return False
        for attr in ("l", "r", "x", "tst", "a", "base"):
            c = getattr(e, attr, None)
            if c is not None and hasattr(c, "_is_def") and not isinstance(c, (int, str)):
                todo.append(c)
        if getattr(e, "_is_cmp", False):
            todo.extend(e.parts.values())
        if getattr(e, "_is_vec", False):
            todo.extend(e.l)
        if getattr(e, "_is_mem", False):
            for l, v in e.mods:
                todo.append(l)
                todo.append(v)
    return True


def mcanon(x, envs):
    """what a read returned, in comparable form: width and values under the valuations; the shape when the walker cannot
    evaluate it"""
    if not small(x):
        return (x.size, "shape", "more than 1500 nodes")
    d = X.dump(x)
    try:
        od = opaque(d)
        return (x.size, "val", tuple(X.ref_dump(od, complete(env, od, od)) for env in envs))
    except (MemoryError, RecursionError):
        raise
    except Exception:
        return (x.size, "shape", repr(d))


def mobserve(cx, m, envs, wide=True):
    """everything a map can be asked: every architectural register (call and index form), sub-registers at fixed ranges, and
    memory byte by byte (plus some wider reads) around the absolute and the pointer-relative window"""
    E = cx.E
    regs = mregs(E)
    out = {}

    def rd(key, f):
        try:
            out[key] = mcanon(f(), envs)
        except (MemoryError, RecursionError):
            raise
        except Exception as x:
            out[key] = ("raised", type(x).__name__)
    for nm, sz in M_ARCH:
        r = regs[nm]
        rd("call %s" % nm, lambda: m(r))
        rd("index %s" % nm, lambda: m[r])
        for lo, hi in M_SUB:
            if hi <= sz:
                rd("call %s[%d:%d]" % (nm, lo, hi), lambda: m(r[lo:hi]))
    for base in ("abs", "p"):
        b = mbase(E, regs, base)
        for off in range(-6, 28):
            rd("index mem8 %s%+d" % (base, off), lambda: m[E.mem(b, 8, disp=off)])
        if wide:
            for off, nb in ((-4, 4), (-2, 4), (0, 4), (0, 8), (1, 2), (2, 4), (3, 8), (4, 4), (6, 2), (8, 8), (10, 4), (13, 4), (16, 8)):
                rd("index mem%d %s%+d" % (8 * nb, base, off), lambda: m[E.mem(b, 8 * nb, disp=off)])
                rd("call mem%d %s%+d" % (8 * nb, base, off), lambda: m(E.mem(b, 8 * nb, disp=off)))
    return out


def mdiff(o0, o1):
    """(decisive differences, undecided) between two observations of what must be the same map"""
    bad, und = [], 0
    for k in o0:
        a, b = o0[k], o1.get(k)
        if a == b:
            continue
        if a[0] == "raised":
            continue
        if b is None or b[0] == "raised":
            bad.append("%s worked and now raises %s" % (k, b and b[1]))
        elif a[0] != b[0]:
            bad.append("%s: %d bits, now %d bits" % (k, a[0], b[0]))
        elif a[1] == "val" and b[1] == "val":
            bad.append("%s: values %s, now %s" % (k, [hex(v) for v in a[2]], [hex(v) for v in b[2]]))
        else:
            und += 1
    return bad, und


def mstores(rng, objs, n):
    """n store descriptors laid over the memory objects (base, disp, nbytes) of another map in every overlap shape: beginning
    below an object and ending strictly inside it, inside it, from inside it over its end, covering it, exactly on it"""
    out = []
    for _ in range(n):
        if objs and rng.random() < 0.9:
            base, d, nb = rng.choice(objs)
            shape = rng.choice(["below-into", "below-into", "inside", "tail", "cover", "exact"])
            if nb < 2 and shape in ("below-into", "tail"):
                shape = "cover"
            if shape == "below-into":
                a, b = d - rng.randrange(1, 4), d + rng.randrange(1, nb)
            elif shape == "inside":
                a = d + rng.randrange(0, nb)
                b = rng.randrange(a + 1, d + nb + 1)
            elif shape == "tail":
                a, b = d + rng.randrange(1, nb), d + nb + rng.randrange(1, 4)
            elif shape == "cover":
                a, b = d - rng.randrange(0, 3), d + nb + rng.randrange(0, 3)
            else:
                a, b = d, d + nb
        else:
            base, a = rng.choice(["abs", "p"]), rng.randrange(-3, 16)
            b = a + rng.choice([1, 2, 4, 8])
        n8 = b - a
        c = rng.random()
        if c < 0.3:
            out.append(("raw", base, a, bytes(rng.getrandbits(8) for _ in range(n8))))
        elif c < 0.75:
            out.append(("mem", base, a, mgen_val(rng, 8 * n8), rng.choice([1, 1, -1])))
        else:
            out.append(("mmw", base, a, mgen_val(rng, 8 * n8), rng.choice([1, 1, -1])))
    return out


def map_case(cx, rng, out):
    from amoco.cas.mapper import merge
    from amoco.system.memory import MemoryMap
    conf = cx.conf
    conf.Cas.complexity = 0
    conf.Cas.memtrace = rng.random() >= 0.25
    conf.Cas.noaliasing = rng.random() >= 0.15
    envs = X.valuations(rng, dict(M_ARCH + M_SRC + [("p", 32)]), 3)
    progA = [mgen_write(rng) for _ in range(rng.randrange(2, 8))]
    if rng.random() < 0.6:
        # a register written piecewise with adjacent symbolic pieces / an image loaded below and above a symbolic store
        nm, sz = rng.choice(M_ARCH)
        cuts = sorted({0, sz} | {8 * rng.randrange(1, sz // 8) for _ in range(rng.randrange(1, 3))})
        for lo, hi in zip(cuts, cuts[1:]):
            progA.insert(rng.randrange(len(progA) + 1), ("reg", nm, lo, hi, mgen_val(rng, hi - lo, 1)))
        progA.insert(rng.randrange(len(progA) + 1), ("raw", rng.choice(["abs", "p"]), rng.randrange(0, 8), bytes(rng.getrandbits(8) for _ in range(rng.randrange(4, 12)))))
    progB = [mgen_write(rng, consts=True) for _ in range(rng.randrange(1, 7))]
    cfg = {"memtrace": conf.Cas.memtrace, "noaliasing": conf.Cas.noaliasing}
    rep = {"A": progA, "B": progB, "conf": cfg}
    A, regsA = mmake(cx, progA)
    T, regsT = mmake(cx, progA)          # the twin: same writes, never an operand of anything
    B, regsB = mmake(cx, progB)
    st0 = mstored(A)
    obsA0 = mobserve(cx, A, envs)
    # (a stored value re-shaped in place into an equivalent form by a read is allowed: only pure flag changes are decisive)
    ch = [(a, b) for a, b in zip(st0, mstored(A)) if a != b and no_flags(a) == no_flags(b)] if WATCH_SIGN_FLAGS_OF_STORED_VALUES else []
    if ch:
        out["finds"].setdefault("map|read-changes-stored-value", dict(rep, ops=[], detail="reading every location of a map changed what it stores: %s" % (ch[:1],)))
        return
    if mdiff(obsA0, mobserve(cx, T, envs)) != ([], 0):
        out["ops"]["(map twin differs: case dropped)"] = out["ops"].get("(map twin differs: case dropped)", 0) + 1
        return
    obsB0 = mobserve(cx, B, envs, wide=False)
    out["n"] += 1
    out["nontrivial"] += 1
    # ---- operations taking the maps as operands
    results, opnames = [], []
    for _ in range(rng.randrange(1, 4)):
        k = rng.randrange(11)
        try:
            if k == 0:
                results.append(A.use()); nm = "use"
            elif k == 1:
                results.append(B >> A); nm = "B>>A"
            elif k == 2:
                results.append(A >> B); nm = "A>>B"
            elif k == 3:
                results.append(A << B); nm = "A<<B"
            elif k == 4:
                results.append(A.eval(B)); nm = "A.eval(B)"
            elif k == 5:
                results.append(merge(A, B) if rng.random() < 0.5 else merge(B, A)); nm = "merge"
            elif k == 6:
                c = cx.mapper()
                c.setmemory(A.mmap.copy())
                results.append(c); nm = "MemoryMap.copy"
            elif k == 7:
                results.append(pickle.loads(pickle.dumps(A))); nm = "pickle"
            elif k == 8:
                results.append(A.assume([])); nm = "assume"
            elif k == 9:
                regs = mregs(cx.E)
                for _v in range(3):
                    B(A(mbuild_val(cx.E, regs, mgen_val(rng, rng.choice([8, 16, 32])))))
                    A(B(regs[rng.choice(M_ARCH)[0]]))
                nm = "evaluations"
            else:
                results.append((B >> A) >> B); nm = "B>>A>>B"
        except (MemoryError, RecursionError):
            raise
        except Exception as x:
            nm = "map-op%d-raised" % k
        opnames.append(nm)
        out["ops"]["map:" + nm] = out["ops"].get("map:" + nm, 0) + 1
    rep["ops"] = opnames

    def verdict(stage, o0, o1, who):
        bad, und = mdiff(o0, o1)
        if und:
            out["ops"]["(map reads undecided)"] = out["ops"].get("(map reads undecided)", 0) + und
        if bad:
            key = "map|%s" % stage
            if key not in out["finds"]:
                out["finds"][key] = dict(rep, ops=opnames, detail="%s %s: %s" % (who, stage, "; ".join(bad[:3])))
            return True
        return False
    if verdict("operand-after-operation", obsA0, mobserve(cx, A, envs), "map A") or verdict("operand-after-operation", obsB0, mobserve(cx, B, envs, wide=False), "map B"):
        return
    # ---- stores into the results, laid over the objects of the operand
    objs = [(w[1], w[2], len(w[3]) if w[0] == "raw" else mval_size(w[3]) // 8) for w in progA if w[0] in ("mem", "raw", "mmw")]
    objs = [o for o in objs if o[2] >= 1]
    stores = []
    for C in results:
        regs = mregs(cx.E)
        st = mstores(rng, objs, rng.randrange(1, 5)) + [mgen_write(rng, memory=False) for _ in range(rng.randrange(0, 3))]
        stores.append(st)
        for w in st:
            try:
                mapply(cx, C, regs, w)
            except (MemoryError, RecursionError):
                raise
            except Exception:
                out["ops"]["map:store-raised"] = out["ops"].get("map:store-raised", 0) + 1
    rep["stores"] = stores
    if verdict("operand-after-stores-into-result", obsA0, mobserve(cx, A, envs), "map A") or verdict("operand-after-stores-into-result", obsB0, mobserve(cx, B, envs, wide=False), "map B"):
        return
    # ---- the operand goes on being used: the same further writes on it and on its twin
    obsC0 = mobserve(cx, results[0], envs) if results else None
    prog2 = [mgen_write(rng, memory=rng.random() < 0.4) for _ in range(rng.randrange(1, 5))]
    if objs and rng.random() < 0.5:
        prog2 += mstores(rng, objs, rng.randrange(1, 3))
    rep["further"] = prog2
    for w in prog2:
        ra = rt = None
        try:
            mapply(cx, A, regsA, w)
        except (MemoryError, RecursionError):
            raise
        except Exception as x:
            ra = type(x).__name__
        try:
            mapply(cx, T, regsT, w)
        except (MemoryError, RecursionError):
            raise
        except Exception as x:
            rt = type(x).__name__
        if ra != rt:
            key = "map|further-write-raised"
            out["finds"].setdefault(key, dict(rep, ops=opnames, detail="write %s on the former operand: %s, on its twin: %s" % (w, ra, rt)))
            return
    if verdict("former-operand-vs-twin-after-further-writes", mobserve(cx, T, envs), mobserve(cx, A, envs), "map A"):
        return
    if obsC0 is not None:
        verdict("result-after-writes-into-operand", obsC0, mobserve(cx, results[0], envs), "result")


def map_worker(args):
    import signal
    import resource
    seed, ncases = args
    cx = c01.Ctx()
    rng = random.Random(seed)
    out = {"n": 0, "finds": {}, "ops": {}, "nontrivial": 0}
    signal.signal(signal.SIGALRM, _alarm)
    signal.signal(signal.SIGVTALRM, _alarm)
    resource.setrlimit(resource.RLIMIT_AS, (3 << 30, 3 << 30))
    saved = (cx.conf.Cas.complexity, cx.conf.Cas.memtrace, cx.conf.Cas.noaliasing)
    for _ in range(ncases):
        # 20 s of CPU time per case (a case takes ~0.1 s; wall time is no measure on a loaded machine), 300 s wall as a backstop
        signal.setitimer(signal.ITIMER_VIRTUAL, 20)
        signal.alarm(300)
        try:
            map_case(cx, rng, out)
        except CaseTimeout:
            out["ops"]["map:timeout"] = out["ops"].get("map:timeout", 0) + 1
        except (MemoryError, RecursionError):
            out["ops"]["map:resource"] = out["ops"].get("map:resource", 0) + 1
        finally:
            signal.setitimer(signal.ITIMER_VIRTUAL, 0)
            signal.alarm(0)
    cx.conf.Cas.complexity, cx.conf.Cas.memtrace, cx.conf.Cas.noaliasing = saved
    return out


# ------------------------------------------------------------------------------------------
# vec operands: an expression that is a SET of alternatives (what merging maps produces).  Under a valuation a vec denotes
# the set of the values of its alternatives, and 'any value' as soon as one alternative is undefined (top, a widened vec,
# a never-written / bottom value, or anything that denotes 'any value' itself).  Using such an operand - directly, nested in
# other nodes, or held by a map - may re-shape it in place (flatten, drop duplicates, simplify alternatives) but the set it
# denotes must stay what it was.  Descriptors (plain lists) are built once per case and kept for the replay file:
#   ("c",v,n) ("r",name,n) ("top",n) ("bot",n) ("op",sym,A,B,raw) ("un",sym,A,raw) ("slc",A,pos,n,raw) ("tst",C,A,B)
#   ("cat",[A..],how) ("vec",[A..]) ("vecw",[A..])
# ------------------------------------------------------------------------------------------
ANY = "ANY"
V_WIDTHS = [1, 8, 8, 16, 32, 32, 32, 64, 7, 33]
V_SYMS = ["+", "-", "^", "&", "|", "*"]
V_SET_CAP = 4096


def vreg(rng, n):
    return ("r", "v%d_%d" % (n, rng.randrange(3)), n)


def vgen_def(rng, n, depth):
    """descriptor of an n-bit expression without undefined leaves"""
    c = rng.random()
    if depth <= 0 or c < 0.40:
        if rng.random() < 0.3:
            return ("c", rng.choice([0, 1, X.mask(n), rng.getrandbits(n), rng.randrange(0, min(1 << n, 9))]), n)
        return vreg(rng, n)
    if c < 0.70:
        return ("op", rng.choice(V_SYMS), vgen_def(rng, n, depth - 1), vgen_def(rng, n, depth - 1), rng.random() < 0.5)
    if c < 0.80:
        return ("un", rng.choice("-~"), vgen_def(rng, n, depth - 1), rng.random() < 0.5)
    if c < 0.90:
        m = n + rng.choice([0, 1, 8, 24])
        return ("slc", vgen_def(rng, m, depth - 1), rng.randrange(0, m - n + 1), n, rng.random() < 0.5)
    return ("tst", vgen_cond(rng, depth - 1), vgen_def(rng, n, depth - 1), vgen_def(rng, n, depth - 1))


def vgen_cond(rng, depth):
    if rng.random() < 0.6 or depth <= 0:
        return ("r", "vc%d" % rng.randrange(2), 1)
    m = rng.choice([8, 32])
    return ("op", rng.choice(["==", "!="]), vgen_def(rng, m, depth - 1), vgen_def(rng, m, 0), rng.random() < 0.5)


def vgen_undef(rng, n, depth):
    """descriptor of an n-bit expression that is, or simplifies to, an undefined value"""
    c = rng.random()
    if c < 0.35:
        return ("top", n)
    if c < 0.55:
        return ("bot", n)
    if c < 0.75:
        return ("vecw", [vgen_def(rng, n, max(depth - 1, 0)) for _ in range(rng.randrange(2, 4))])
    if c < 0.85 or depth <= 0:
        l, r = vgen_undef(rng, n, 0), vgen_def(rng, n, max(depth - 1, 0))
        if rng.random() < 0.5:
            l, r = r, l
        return ("op", rng.choice(V_SYMS), l, r, True)
    if c < 0.92:
        m = n + rng.choice([0, 8])
        return ("slc", vgen_undef(rng, m, 0), rng.randrange(0, m - n + 1), n, True)
    return vgen_vec(rng, n, depth - 1, True)


def vgen_vec(rng, n, depth, undefined):
    """a vec of 2-4 alternatives (duplicates and nested vecs included); undefined: at least one alternative is undefined, at
    any position"""
    k = rng.randrange(2, 5)
    alts = []
    for i in range(k):
        c = rng.random()
        if alts and c < 0.2:
            alts.append(rng.choice(alts))                                  # a duplicate
        elif c < 0.4 and depth > 0:
            alts.append(vgen_vec(rng, n, depth - 1, False))                # a nested (all-defined) vec
        else:
            alts.append(vgen_def(rng, n, depth))
    if undefined:
        for _ in range(1 if rng.random() < 0.8 else 2):
            alts.insert(rng.randrange(len(alts) + 1), vgen_undef(rng, n, depth))
    return ("vec", alts)


def vgen_operand(rng, n, depth=2):
    """an n-bit operand holding a vec: the vec itself, or a vec inside operators / slices / conditionals / compositions"""
    undefined = rng.random() < 0.7
    c = rng.random()
    if c < 0.35 or depth <= 0:
        return vgen_vec(rng, n, 2, undefined)
    inner = lambda m=n: vgen_operand(rng, m, depth - 1)
    if c < 0.50:
        l, r = inner(), vgen_def(rng, n, 1)
        if rng.random() < 0.5:
            l, r = r, l
        return ("op", rng.choice(V_SYMS), l, r, rng.random() < 0.8)
    if c < 0.58:
        return ("un", rng.choice("-~"), inner(), rng.random() < 0.8)
    if c < 0.70:
        m = n + rng.choice([0, 3, 8, 32])
        return ("slc", inner(m), rng.randrange(0, m - n + 1), n, rng.random() < 0.8)
    if c < 0.84:
        l, r = inner(), (vgen_def(rng, n, 1) if rng.random() < 0.7 else inner())
        if rng.random() < 0.5:
            l, r = r, l
        cond = vgen_cond(rng, 1) if rng.random() < 0.8 else vgen_vec(rng, 1, 0, rng.random() < 0.5)
        return ("tst", cond, l, r)
    if n >= 2:
        cut = rng.randrange(1, n)
        if n >= 16 and rng.random() < 0.7:
            cut = 8 * rng.randrange(1, n // 8)
        parts = [inner(cut), vgen_def(rng, n - cut, 1) if rng.random() < 0.6 else inner(n - cut)]
        if rng.random() < 0.5:
            parts.reverse()
        return ("cat", parts, rng.choice(["parts", "parts", "composer"]))
    return vgen_vec(rng, n, 1, undefined)


def vsize(d):
    k = d[0]
    if k in ("c", "r"):
        return d[2]
    if k in ("top", "bot"):
        return d[1]
    if k == "op":
        return 1 if d[1] in ("==", "!=") else vsize(d[2])
    if k == "un":
        return vsize(d[2])
    if k == "slc":
        return d[3]
    if k == "tst":
        return vsize(d[2])
    if k == "cat":
        return sum(vsize(x) for x in d[1])
    return vsize(d[1][0])


class VRegs:
    """the registers of a case (name -> object), created on demand: what apply_ops expects of a builder"""
    def __init__(self, E):
        self.E = E
        self.regs = {}

    def get(self, name, n):
        r = self.regs.get(name)
        if r is None:
            r = self.regs[name] = self.E.reg(name, n)
        return r


def vbuild(E, R, d):
    k = d[0]
    if k == "c":
        return E.cst(d[1], d[2])
    if k == "r":
        return R.get(d[1], d[2])
    if k == "top":
        return E.top(d[1])
    if k == "bot":
        return E.exp(d[1])
    if k == "op":
        l, r = vbuild(E, R, d[2]), vbuild(E, R, d[3])
        return E.op(d[1], l, r) if d[4] else E.oper(d[1], l, r)
    if k == "un":
        r = vbuild(E, R, d[2])
        return E.uop(d[1], r) if d[3] else E.oper(d[1], r)
    if k == "slc":
        x = vbuild(E, R, d[1])
        return E.slc(x, d[2], d[3]) if d[4] else x[d[2]:d[2] + d[3]]
    if k == "tst":
        return E.tst(vbuild(E, R, d[1]), vbuild(E, R, d[2]), vbuild(E, R, d[3]))
    if k == "cat":
        parts = [vbuild(E, R, x) for x in d[1]]
        if d[2] == "composer":
            return E.composer(parts)
        c = E.comp(sum(p.size for p in parts))
        pos = 0
        for p in parts:
            c[pos:pos + p.size] = p
            pos += p.size
        return c
    if k == "vec":
        return E.vec([vbuild(E, R, x) for x in d[1]])
    if k == "vecw":
        return E.vecw(E.vec([vbuild(E, R, x) for x in d[1]]))
    raise ValueError(d)


def has_kind(t, kinds):
    """a node of one of the kinds occurs in the dumped tree"""
    if isinstance(t, tuple):
        if t and t[0] in kinds:
            return True
        return any(has_kind(x, kinds) for x in t)
    if isinstance(t, list):
        return any(has_kind(x, kinds) for x in t)
    return False


def den(t, env):
    """the set of values (frozenset of integers in [0, 2^width)) the dumped tree can take under the valuation, ANY when that is
    exactly the set of all values of its width; Ambiguous when the set is not determined here (memory, mixed signedness, large
    sets, the image of 'any value' under an operator that is not a bijection: 0 * x is 0 whatever x is)"""
    k = t[0]
    if k in ("top", "bot", "vecw"):
        return ANY
    if k == "cst":
        return frozenset([t[1] & X.mask(t[2])])
    if k == "reg":
        if t[1] not in env:
            raise X.Ambiguous("free register " + str(t[1]))
        return frozenset([env[t[1]] & X.mask(t[2])])
    if k == "vec":
        ds, amb = [], None
        for x in t[1]:
            try:
                ds.append(den(x, env))
            except (X.Ambiguous, ZeroDivisionError) as ex:
                amb = ex
        if any(d is ANY for d in ds):
            return ANY                          # whatever the other alternatives are
        if amb is not None:
            raise X.Ambiguous(str(amb))
        out = frozenset().union(*ds)
        if len(out) > V_SET_CAP:
            raise X.Ambiguous("large set")
        return out
    if k == "slc":
        d = den(t[1], env)
        return ANY if d is ANY else frozenset((x >> t[2]) & X.mask(t[3]) for x in d)
    if k == "comp":
        ds = [(lo, hi, den(p, env)) for lo, hi, p in t[1]]
        if all(d is ANY for lo, hi, d in ds) and ds:
            return ANY
        if any(d is ANY for lo, hi, d in ds):
            raise X.Ambiguous("any value in a part")
        out = {0}
        for lo, hi, d in ds:
            if len(out) * len(d) > V_SET_CAP:
                raise X.Ambiguous("large set")
            out = {v | ((x & X.mask(hi - lo)) << lo) for v in out for x in d}
        return frozenset(out)
    if k == "tst":
        c = den(t[1], env)
        out = frozenset()
        for b, br in ((1, t[2]), (0, t[3])):
            if c is ANY or any((x == 1) == (b == 1) for x in c):
                d = den(br, env)
                if d is ANY:
                    return ANY
                out |= d
        return out
    if k == "uop":
        d = den(t[2], env)
        if d is ANY:
            if t[1] in ("-", "~", "+"):
                return ANY                      # a bijection of the values of that width
            raise X.Ambiguous("image of any value")
        return frozenset(X.ref_unop(t[1], x, t[3]) for x in d)
    if k == "op":
        s, l, r = t[1], t[2], t[3]
        a, b = den(l, env), den(r, env)
        if a is ANY or b is ANY:
            o = b if a is ANY else a
            if s in ("+", "-", "^") and (o is ANY or len(o) > 0):
                return ANY                      # x -> x op c is a bijection for every c
            raise X.Ambiguous("image of any value")
        sg = None
        if s in X.SCMP + ("**", "/", "%"):
            sl, sr = X.d_sf(l), X.d_sf(r)
            if sl != sr:
                raise X.Ambiguous("mixed signedness")
            sg = sl
        if len(a) * len(b) > V_SET_CAP:
            raise X.Ambiguous("large set")
        n = X.d_size(l)
        return frozenset(X.ref_binop(s, x, y, n, sg)[0] for x in a for y in b)
    raise X.Ambiguous("node " + k)


def show_den(d):
    if d is ANY:
        return "any value"
    return "{" + ",".join("%#x" % x for x in sorted(d)[:6]) + (",.." if len(d) > 6 else "") + "}"


def compare_sets(snap, envs):
    """[(kind, detail, tree0, tree1)] for watched nodes whose width, or the set of values they denote, changed"""
    bad = []
    for o, d0, n0 in snap:
        try:
            d1 = X.dump(o)
        except Exception as x:
            bad.append(("undumpable", "a watched node can no longer be walked: %r" % (x,), d0, None))
            continue
        if o.size != n0:
            bad.append(("width", "width of a watched %s node changed from %d to %d" % (d0[0], n0, o.size), d0, d1))
            continue
        if d1 == d0:
            continue
        decided = False
        for env in envs:
            env = complete(env, d0, d1)
            try:
                s0, s1 = den(d0, env), den(d1, env)
            except (X.Ambiguous, ZeroDivisionError):
                continue
            decided = True
            if s0 != s1:
                # every value it could take is still there (a larger set, or 'any value'): the operand was over-approximated
                # (widened) in place; everything else: it lost values
                kind = "value-set-widened" if (s0 is not ANY and (s1 is ANY or s0 < s1)) else "value-set"
                bad.append((kind, "a watched %s node was re-shaped from %s into the non-equivalent %s: it denotes %s before and %s after "
                            "under %s" % (d0[0], str(d0)[:90], str(d1)[:90], show_den(s0), show_den(s1), env), d0, d1))
                break
        else:
            bad.append(("reshaped-equivalent" if decided else "reshaped-undecided", "", d0, d1))
    return bad


def apply_vec_ops(cx, e, R, rng, watch, OPTS=OPTS):
    """operations that take the operand (or one of its nodes) as an argument where it is kept by reference: raw nodes simplified
    with every option, composer, and maps that hold it (store, read, evaluate, compose, merge, copy)"""
    from amoco.cas.mapper import merge
    E = cx.E
    names = []
    nodes = reachable(e)
    vecs = [x for x in nodes if getattr(x, "_is_vec", False)]
    for _ in range(rng.randrange(1, 3)):
        k = rng.randrange(9)
        sub = rng.choice(vecs) if vecs and rng.random() < 0.5 else rng.choice(nodes)
        n = sub.size
        other = R.get("w%d" % n, n) if rng.random() < 0.7 else E.cst(rng.getrandbits(n), n)
        opt = rng.choice(OPTS)
        try:
            if k == 0:
                sym = rng.choice(V_SYMS)
                x = E.op(sym, sub, other) if rng.random() < 0.5 else E.op(sym, other, sub)
                x.simplify(**opt)
                names.append("raw-op-simplify")
            elif k == 1:
                E.uop(rng.choice("-~"), sub).simplify(**opt)
                names.append("raw-uop-simplify")
            elif k == 2:
                a = rng.randrange(0, n)
                b = rng.randrange(a + 1, n + 1)
                E.slc(sub, a, b - a).simplify(**opt)
                names.append("raw-slc-simplify")
            elif k == 3:
                cond = R.get("cnd", 1)
                t = E.tst(cond, sub, other) if rng.random() < 0.5 else E.tst(cond, other, sub)
                t.simplify(**opt)
                names.append("raw-tst-simplify")
            elif k == 4:
                parts = [sub, other[0:rng.randrange(1, n + 1)]]
                rng.shuffle(parts)
                c = E.composer(parts)
                c.simplify(**opt)
                names.append("composer")
            elif k == 5:
                c = E.comp(n + 8)
                c[0:n] = sub
                c[n:n + 8] = E.cst(0x5A, 8)
                c.simplify(**opt)
                c[4:n + 4] if n > 4 else c[0:n]
                names.append("comp-part-simplify")
            else:
                # a map holds the operand (memory keeps what it is given, a register entry what it simplifies to); the map is
                # then read, evaluated, composed, merged and copied, and so is what it returned
                m = cx.mapper()
                P = R.get("ptr", 32)
                loc = E.mem(P, n, disp=rng.choice([0, 4]))
                dst = R.get("dst%d" % n, n)
                how = rng.randrange(3) if n % 8 == 0 else 1          # memory holds whole bytes
                if how != 1:
                    m[loc] = sub
                if how != 0:
                    m[dst] = sub
                for l_, v_ in m:
                    watch.extend(snapshot(reachable(v_)))
                m2 = cx.mapper()
                for g in list(R.regs.values())[:3]:
                    m2[g] = (g ^ E.cst(1, g.size)) if rng.random() < 0.5 else E.cst(rng.getrandbits(g.size), g.size)
                m2[P] = P + rng.choice([0, 4, 8])
                for _u in range(rng.randrange(1, 4)):
                    u = rng.randrange(8)
                    if u == 0:
                        got = m[loc] if how != 1 else m[dst]
                        watch.extend(snapshot(reachable(got)))
                        (got + 1).simplify(**opt) if n > 1 else got.simplify(**opt)
                    elif u == 1:
                        got = m(loc) if how != 1 else m(dst)
                        got.simplify(**opt)
                    elif u == 2:
                        m(E.tst(R.get("cnd", 1), loc if how != 1 else dst, other))
                    elif u == 3:
                        (m2 >> m)
                        (m >> m2)
                    elif u == 4:
                        (m << m2)
                        m.eval(m2)
                    elif u == 5:
                        merge(m, m2, **opt) if rng.random() < 0.5 else merge(m2, m, **opt)
                    elif u == 6:
                        m.use()
                        pickle.loads(pickle.dumps(m))
                    else:
                        m3 = cx.mapper()
                        m3[dst] = E.tst(R.get("cnd", 1), sub, other)
                        merge(m3, m)
                        (m3 << m2)
                names.append("map-holds-operand")
        except (MemoryError, RecursionError):
            raise
        except Exception:
            names.append("vop%d-raised" % k)
    return names


# Pending triage (reported, not listed): amoco over-approximates operands IN PLACE - the operand keeps every value it could take
# but gains others.  Seen on the unchanged tree: (a) with conf.Cas.complexity > 0 a too complex vec inside the operand is
# replaced by top; (b) when an expression containing the operand is simplified with widening=True, a conditional inside the
# operand is replaced by the vec of its branches and a vec by a widened vec; (c) simplify(bitslice=True) of `vec & mask` inside
# the operand replaces it by a composite of per-bit vecs, which forgets that the bits come from the same alternative.
# An operand that LOSES a value it could take (from 'any value' to a finite set, from a set to another that does not contain
# it) is decisive everywhere.  Set the constant True to make in-place over-approximation decisive too.
WATCH_IN_PLACE_WIDENING = False


def vec_case(cx, case_seed, out, verbose=False):
    """one vec operand, 1-2 rounds of operations on it, comparison of the sets its nodes denote; everything is drawn from
    case_seed (kept in the replay file)"""
    import signal
    rng = random.Random(case_seed)
    cx.conf.Cas.complexity = 0 if rng.random() < 0.7 else rng.choice([4, 12, 40])
    cx.conf.Cas.noaliasing = rng.random() >= 0.15
    widening = rng.random() < 0.4
    opts = OPTS if widening else [o for o in OPTS if "widening" not in o]
    n = rng.choice(V_WIDTHS)
    d = vgen_operand(rng, n)
    R = VRegs(cx.E)
    try:
        e = vbuild(cx.E, R, d)
    except (MemoryError, RecursionError):
        return
    except Exception:
        out["ops"]["(vec operand not buildable)"] = out["ops"].get("(vec operand not buildable)", 0) + 1
        return
    snap = snapshot(reachable(e))
    if not snap:
        return
    envs = X.valuations(rng, {nm: g.size for nm, g in R.regs.items()}, 3)
    out["n"] += 1
    root = snap[0][1]
    for kd in ("vec", "vecw", "top", "bot"):
        if has_kind(root, (kd,)):
            out["kinds"][kd] = out["kinds"].get(kd, 0) + 1
    if has_kind(root, ("vec",)):
        out["nontrivial"] += 1
    if verbose:
        print("operand:", e, " complexity threshold:", cx.conf.Cas.complexity, " widening option used:", widening)
    signal.setitimer(signal.ITIMER_VIRTUAL, 20)
    signal.alarm(300)
    try:
        names = []
        for _r in range(rng.randrange(1, 3)):
            try:
                if rng.random() < 0.5:
                    names += apply_ops(cx, e, R, rng, snap, opts)
                else:
                    names += apply_vec_ops(cx, e, R, rng, snap, opts)
            except RecursionError:
                names.append("recursion-raised")       # (operators on a bottom value recurse for ever: raising is C01's subject)
        bad = compare_sets(snap, envs)
    except CaseTimeout:
        names, bad = ["timeout"], []
    except (MemoryError, RecursionError):
        names, bad = ["resource"], []
    finally:
        signal.setitimer(signal.ITIMER_VIRTUAL, 0)
        signal.alarm(0)
    if verbose:
        print("after operations %s:" % names, e)
    for nm in names:
        out["ops"]["vec:" + nm] = out["ops"].get("vec:" + nm, 0) + 1
    for kind, detail, d0, d1 in bad:
        if kind == "reshaped-equivalent":
            out["reshaped"] += 1
            continue
        if kind == "reshaped-undecided":
            out["undecided"] += 1
            continue
        if kind == "value-set-widened" and not WATCH_IN_PLACE_WIDENING:
            out["widened"] += 1
            continue
        key = "vec|%s|%s" % (kind, d0[0])
        if key not in out["finds"]:
            out["finds"][key] = {"vec_case_seed": case_seed, "operand": d, "threshold": cx.conf.Cas.complexity, "widening": widening,
                                 "ops": names, "detail": detail}
        if verbose:
            print(kind, detail)


def vec_worker(args):
    import signal
    import resource
    seed, ncases = args
    cx = c01.Ctx()
    rng = random.Random(seed)
    out = {"n": 0, "finds": {}, "ops": {}, "nontrivial": 0, "reshaped": 0, "undecided": 0, "widened": 0, "kinds": {}}
    signal.signal(signal.SIGALRM, _alarm)
    signal.signal(signal.SIGVTALRM, _alarm)
    resource.setrlimit(resource.RLIMIT_AS, (3 << 30, 3 << 30))
    saved = (cx.conf.Cas.complexity, cx.conf.Cas.memtrace, cx.conf.Cas.noaliasing)
    for _ in range(ncases):
        vec_case(cx, rng.getrandbits(48), out)
    cx.conf.Cas.complexity, cx.conf.Cas.memtrace, cx.conf.Cas.noaliasing = saved
    return out


def pickle_part(run, quick):
    cx = c01.Ctx()
    E = cx.E
    rng = random.Random(run.seed * 2741 + 13)
    from amoco.system.memory import MemoryMap
    for t in range(400 if quick else 8000):
        r, signed, threshold, envs = c01.gen_case(rng, 4)
        B = X.Builder(signed)
        try:
            e = B.build(r)
        except Exception:
            continue
        kind = rng.choice(["exp", "exp", "simplified", "mapper", "memory"])
        rep = {"recipe": r, "signed": signed, "object": kind}
        try:
            if kind == "simplified":
                e = e.simplify()
            if rng.random() < 0.4:
                # a signed / unsigned view of an inner slice or operation (its flag then differs from its operands')
                inner = [x for x in reachable(e) if (x._is_slc or x._is_eqn) and x is not e]
                if inner:
                    x = rng.choice(inner)
                    x.sf = not x.sf
            if kind in ("exp", "simplified"):
                obj = e
            elif kind == "mapper":
                obj = cx.mapper()
                obj[E.reg("dst0", e.size)] = e
                obj[E.mem(E.reg("ptr", 32), e.size)] = e
                for g in list(B.regs.values())[:2]:
                    obj[g] = g + 1
            else:
                obj = MemoryMap()
                obj.write(0x1000, b"abcdefgh")
                obj.write(0x1004, e, endian=rng.choice([1, -1]))
                obj.write(E.ptr(E.reg("ptr", 32), disp=4), e, endian=rng.choice([1, -1]))
                if rng.random() < 0.5 and e.size % 8 == 0 and e.size >= 16:
                    obj.write(E.ptr(E.reg("ptr", 32), disp=4 + max(1, e.size // 16)), E.cst(0x5A, 8))
                if e.size % 8 == 0:
                    # a further history of constant / symbolic stores that extend, trim and split what is there
                    for _w in range(rng.randrange(0, 5)):
                        off = rng.randrange(0, 14)
                        tgt = (0x1000 + off) if rng.random() < 0.5 else E.ptr(E.reg("ptr", 32), disp=off)
                        c = rng.random()
                        val = rng.randbytes(rng.randrange(1, 7)) if c < 0.6 else (E.reg("y%d" % _w, rng.choice([8, 16, 32])) if c < 0.85 else e)
                        obj.write(tgt, val)
            blob = pickle.dumps(obj)
            back = pickle.loads(blob)
        except Exception as x:
            run.violation("pickle|raised|%s|%s" % (kind, type(x).__name__), "pickling a %s raised %r" % (kind, x), rep)
            continue
        run.count(("pickle", kind, str(r)), nontrivial=X.recipe_ops(r) >= 2)
        run.hist("pickle_kind", kind)
        bad = None
        if str(back) != str(obj):
            bad = ("str", "str() of the restored %s differs: %s vs %s" % (kind, str(back)[:80], str(obj)[:80]))
        elif kind in ("exp", "simplified"):
            if not (back == obj) or hash(back) != hash(obj):
                bad = ("eq", "restored expression does not compare / hash equal")
            elif X.dump(back) != X.dump(obj):
                bad = ("fingerprint", "walker fingerprint of the restored expression differs: %s vs %s" % (str(X.dump(back))[:100], str(X.dump(obj))[:100]))
            else:
                for env in envs:
                    try:
                        if X.ref_dump(X.dump(back), env) != X.ref_dump(X.dump(obj), env):
                            bad = ("value", "restored expression evaluates differently")
                    except Exception:
                        pass
        elif kind == "mapper":
            if not (back == obj):
                bad = ("eq", "restored mapper does not compare equal")
            else:
                for loc in [E.reg("dst0", e.size)] + list(B.regs.values())[:2]:
                    if X.dump(back[loc]) != X.dump(obj[loc]):
                        bad = ("fingerprint", "restored mapper holds a different expression for %s" % loc)
        else:
            # a restored map and a copy of the map read like the map itself, at every offset and length
            nb = max(1, e.size // 8)
            try:
                cp = obj.copy()
            except Exception as x:
                cp = None
                bad = ("copy-raised", "MemoryMap.copy raised %r" % (x,))
            P = E.reg("ptr", 32)
            addrs = [(0x1000, 4), (0x1002, 4), (0x1004, 4), (0x1004, nb), (0x1005, max(1, nb - 1)), (0x1004 + nb - 1, 2)]
            addrs += [(E.ptr(P, disp=4 + o), l) for o in range(0, nb + 1) for l in (1, 2, nb) if l <= nb + 2]
            addrs += [(0x1000 + o, l) for o in range(0, 20, 1) for l in (1, 2, 4)] + [(E.ptr(P, disp=o), l) for o in range(0, 20) for l in (1, 2, 4)]
            for a, l in addrs:
                def rd(mm):
                    try:
                        out = []
                        for x in mm.read(a, l):
                            x = bytes(x) if isinstance(x, (bytes, bytearray)) else X.dump(x)
                            if isinstance(x, bytes) and out and isinstance(out[-1], bytes):
                                out[-1] += x          # how raw bytes are cut into objects is not part of what is read
                            else:
                                out.append(x)
                        return out
                    except Exception as x:
                        return ("raised", type(x).__name__)
                def same(r1, r2):
                    """equal reads; a constant kept as an expression in one map and as raw bytes in the other is the same content
                    (the byte order of the expression is the one it was stored with: either reading must match)"""
                    if r1 == r2:
                        return True
                    if not isinstance(r1, list) or not isinstance(r2, list):
                        return False
                    for en in ("little", "big"):
                        def norm(r):
                            out = []
                            for x in r:
                                if isinstance(x, tuple) and x and x[0] == "cst" and x[2] % 8 == 0:
                                    x = (x[1] & ((1 << x[2]) - 1)).to_bytes(x[2] // 8, en)
                                if isinstance(x, bytes) and out and isinstance(out[-1], bytes):
                                    out[-1] += x
                                else:
                                    out.append(x)
                            return out
                        if norm(r1) == norm(r2):
                            return True
                    return False
                if bad is None and not same(rd(obj), rd(back)):
                    bad = ("memory-read", "restored memory reads differently at %s (%d bytes)" % (a, l))
                if bad is None and cp is not None and not same(rd(obj), rd(cp)):
                    sa, sb = str(rd(cp)), str(rd(obj))
                    k = next((i for i in range(min(len(sa), len(sb))) if sa[i] != sb[i]), 0)
                    bad = ("memory-copy-read", "a copy of the memory map reads differently at %s (%d bytes): ...%s vs ...%s" % (a, l, sa[max(0, k - 60):k + 60], sb[max(0, k - 60):k + 60]))
        if bad:
            run.violation("pickle|%s|%s" % (kind, bad[0]), bad[1], rep)


def check(run):
    quick = run.tier == "quick"
    isa.load_all()
    run.cov["rule"] = ("recipes as in C01 (widths 1..128, depth <= 4); every node reachable from the built expression is watched while 1-3 random "
                       "operations use it or one of its nodes as an argument: binary operators (either side) + simplify (plain / bitslice / widening), "
                       "in-place simplify, map write/read, eval (concrete/partial/symbolic), slices, comp assignment, tst branches, unary operators, "
                       "merge, map composition, extensions, comparisons; pickle round trips of expressions, simplified expressions, mappers and "
                       "memory maps; distinct by (recipe, operations); non-trivial when >= 3 nodes are watched; vec operands (alternatives incl. top / "
                       "bottom / widened vec, nested in operators, slices, conditionals, compositions, map values) under the same operations "
                       "plus raw-node simplify / composer / map-holds-operand, compared as sets of values")
    import multiprocessing as mp
    import gc
    tasks = [(run.seed * 4099 + i, 500 if quick else 9000) for i in range(14)]
    gc.collect()
    gc.freeze()
    mtasks = [(run.seed * 7919 + 1000 + i, 25 if quick else 400) for i in range(14)]
    vtasks = [(run.seed * 6007 + 2000 + i, 500 if quick else 9000) for i in range(14)]
    with mp.get_context("fork").Pool(14) as pool:
        results = pool.map(worker, tasks, chunksize=1)
        mresults = pool.map(map_worker, mtasks, chunksize=1)
        vresults = pool.map(vec_worker, vtasks, chunksize=1)
    run.static_part()
    reshaped = []
    for r in results:
        run.cov["evaluations"] += r["n"]
        run._distinct.update(("%d-%d" % (id(r), j)).encode() for j in range(r["nontrivial"]))
        for k, v in r["ops"].items():
            run.cov.setdefault("operations", {})[k] = run.cov.setdefault("operations", {}).get(k, 0) + v
        for s in r["samples"]:
            run.sample(s, 3)
        reshaped += r["reshaped"]
        for k, v in sorted(r["finds"].items()):
            run.violation(k, "value semantics: %s (operations %s)" % (v["detail"][:200], v["ops"]), v)
    for r in mresults:
        run.cov["evaluations"] += r["n"]
        run._distinct.update(("m%d-%d" % (id(r), j)).encode() for j in range(r["nontrivial"]))
        for k, v in r["ops"].items():
            run.cov.setdefault("operations", {})[k] = run.cov.setdefault("operations", {}).get(k, 0) + v
        for k, v in sorted(r["finds"].items()):
            run.violation(k, "maps as values: %s (operations %s)" % (v["detail"][:300], v["ops"]), v)
    vstat = {"operands": 0, "reshaped_equivalent": 0, "reshaped_undecided": 0, "operands_holding": {}}
    for r in vresults:
        run.cov["evaluations"] += r["n"]
        run._distinct.update(("v%d-%d" % (id(r), j)).encode() for j in range(r["nontrivial"]))
        vstat["operands"] += r["n"]
        vstat["reshaped_equivalent"] += r["reshaped"]
        vstat["reshaped_undecided"] += r["undecided"]
        vstat["widened_in_place"] = vstat.get("widened_in_place", 0) + r["widened"]
        for k, v in r["kinds"].items():
            vstat["operands_holding"][k] = vstat["operands_holding"].get(k, 0) + v
        for k, v in r["ops"].items():
            run.cov.setdefault("operations", {})[k] = run.cov.setdefault("operations", {}).get(k, 0) + v
        for k, v in sorted(r["finds"].items()):
            run.violation(k, "vec operands as values: %s (operations %s)" % (v["detail"][:400], v["ops"]), v)
    run.cov["vec_operands"] = vstat
    # re-shaped nodes: before/after trees must denote the same in the Gallina reference semantics
    rows, meta = [], []
    for d0, d1, envs in reshaped[:400]:
        try:
            names = {}
            t0, t1 = c01.coq_exp(d0, names), c01.coq_exp(d1, names)
        except Exception:
            continue
        for env in envs[:2]:
            try:
                v = X.ref_dump(d0, env)
            except Exception:
                continue
            envl = clist(["(%d, %s)" % (i, zlit(env.get(nm, 0))) for nm, i in names.items()])
            rows.append("(%s, %s, %s)" % (t0, envl, zlit(v)))
            rows.append("(%s, %s, %s)" % (t1, envl, zlit(v)))
            meta.append((d0, d1, env))
    run.cov["reshaped_nodes_seen"] = len(reshaped)
    if rows:
        c01.tree_part(run, rows)
    pickle_part(run, quick)
    run.cov["trusted_base"] += ["harness/exptree.py walker (dump, ref_dump) and harness/c13.py object-graph traversal (reachable)"]
    run.assumptions += ["nodes whose reference value is ambiguous (top, memory, mixed signedness) are compared by shape and width only",
                        "vec operands: an operand that loses a value it could take is a violation; one that only gains values (in-place "
                        "over-approximation by the complexity threshold, widening=True, or bit-slicing a masked vec) is counted, not decided "
                        "(WATCH_IN_PLACE_WIDENING)",
                        "operations that raise are C01's subject; the watch still applies to the nodes they touched before raising"]
    return run


def replay(path):
    obj = json.load(open(path))["replay"]
    isa.load_all()
    cx = c01.Ctx()
    if "vec_case_seed" in obj:
        signal = __import__("signal")
        signal.signal(signal.SIGALRM, _alarm)
        signal.signal(signal.SIGVTALRM, _alarm)
        out = {"n": 0, "finds": {}, "ops": {}, "nontrivial": 0, "reshaped": 0, "undecided": 0, "widened": 0, "kinds": {}}
        vec_case(cx, obj["vec_case_seed"], out, verbose=True)
        return 1 if out["finds"] else 0
    if "recipe" in obj and "ops" in obj:
        print(obj["ops"], obj.get("detail"))
        return 1
    print(obj)
    return 1
