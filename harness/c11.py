# C11 — decoding has no memory of earlier calls.
# Static: theorems of coq/Properties/C11.v over the call skeleton Amoco.Dec.Disasm (pending slot cleared on
# every exit, hence outcome independent of any call history; refutation witness for the unrepaired code).
# Tie: trace-driven correspondence of the skeleton with disassembler.__call__ (harness/decmodel.py).
# Search oracle: outcome after an arbitrary call history vs outcome from the cleared state.
import json
import random

import common
import isa
import c04
import decmodel

LEVEL = "proof"


def build_pool(rng, name, dis, specs, nspec):
    e = dis.endian()
    ml = dis.maxlen
    pool = {"valid": [], "random": [], "truncated": [], "prefix": [], "raiser": [], "prefix+raiser": [], "prefix+truncated": [], "prefix+valid": [], "suffix": [],
            "prefix-run": []}
    pfx = [s for s in specs if s.pfx is True]
    sample = specs if nspec >= len(specs) else rng.sample(specs, nspec)
    for s in sample:
        b = c04.spec_bytes(rng, s, e, ml) + bytes(rng.getrandbits(8) for _ in range(rng.choice([0, 2, ml])))
        pool["valid"].append(b)
        if len(b) > 1:
            pool["truncated"].append(b[:rng.randrange(1, max(2, s.fix.size // 8 + 1))])
    if XD[0]:
        # '&' specifications: opcode, a small count, then that many (or one fewer: truncated suffix) short LEB128 items
        for s in specs:
            if s.pfx != "xdata":
                continue
            for cnt in (0, 1, 2, 3, 5):
                for rep in range(4):
                    op = c04.spec_bytes(rng, s, e, ml, fill=0)
                    items = b"".join(bytes([rng.randrange(0, 128)]) if rng.random() < 0.8 else bytes([0x80 | rng.randrange(0, 128), rng.randrange(0, 128)])
                                     for _ in range(cnt + 1))
                    pool["suffix"].append(op + bytes([cnt]) + items + bytes(rng.getrandbits(7) for _ in range(rng.choice([0, 1, 3]))))
                    if rep == 0 and len(items) > 1:
                        pool["suffix"].append(op + bytes([cnt]) + items[:-1 - rng.randrange(0, len(items) - 1)])
    for _ in range(max(20, len(sample) // 4)):
        pool["random"].append(bytes(rng.getrandbits(8) for _ in range(rng.randrange(0, ml + 3))))
    for s in pfx:
        pb = c04.spec_bytes(rng, s, e, ml)
        pool["prefix"].append(pb)
        pool["prefix"].append(pb + c04.spec_bytes(rng, rng.choice(pfx), e, ml))
        free = s.mask.ival != (1 << s.mask.size) - 1
        for v in (pool["valid"] if free else rng.sample(pool["valid"], min(60, len(pool["valid"])))):
            # the same instruction bytes behind the prefix: complete, and cut after 0, 1, 2, ... bytes
            pool["prefix+valid"].append(pb + v)
            if free:
                # a prefix with free bits (REX): the same instruction behind several values of them
                for _ in range(3):
                    pool["prefix+valid"].append(c04.spec_bytes(rng, s, e, ml) + v)
            for n in sorted({0, 1, 2, max(0, len(v) - ml - 1), rng.randrange(0, max(1, min(len(v), ml)))}):
                pool["prefix+truncated"].append(pb + v[:n])
    if pfx and PREFIX_RUNS:
        # long runs of prefix bytes, around and beyond the longest instruction (maxlen-2 .. maxlen+1, 2*maxlen-1 .. 2*maxlen+1,
        # 3*maxlen; capped at RUN_CAP bytes, far below the interpreter's recursion limit): every prefix repeated, two prefixes
        # alternating, random mixtures; alone, followed by a valid instruction, by a truncated one and by arbitrary bytes
        lens = sorted({min(RUN_CAP, n) for n in (ml - 2, ml - 1, ml, ml + 1, 2 * ml - 1, 2 * ml, 2 * ml + 1, 3 * ml) if n > 0})

        def run_of(n, parts):
            out, j = b"", 0
            while len(out) < n:
                out += parts[j % len(parts)] if parts else c04.spec_bytes(rng, rng.choice(pfx), e, ml)
                j += 1
            return out

        def add(r):
            pool["prefix-run"].append(r)
            v = rng.choice(pool["valid"])
            pool["prefix-run"].append(r + v)
            c = rng.random()
            if c < 0.3 and len(v) > 1:
                pool["prefix-run"].append(r + v[:rng.randrange(1, len(v))])
            elif c < 0.5:
                pool["prefix-run"].append(r + bytes(rng.getrandbits(8) for _ in range(rng.randrange(1, ml + 1))))
        for n in lens:
            for s in pfx:
                add(run_of(n, [c04.spec_bytes(rng, s, e, ml)]))
            for _ in range(max(2, len(pfx) // 2)):
                add(run_of(n, [c04.spec_bytes(rng, rng.choice(pfx), e, ml), c04.spec_bytes(rng, rng.choice(pfx), e, ml)]))
                add(run_of(n, None))
    return pool, pfx


PREFIX_RUNS = True      # inputs that begin with maxlen or more prefix bytes
RUN_CAP = 64


XD = [False]


def call(dis, b):
    """one decoder call; in suffix mode (instruction sets with '&' specifications, whose decoding is completed from the code
    buffer) the call is made the way the emulator makes it: the instruction bytes plus the buffer they come from"""
    if XD[0]:
        return dis(b, address=0, code=b)
    return dis(b)


def fresh(dis, b):
    isa.reset_pending(dis)
    o = c04.outcome(lambda: call(dis, b))
    isa.reset_pending(dis)
    return o


def fresh_many(dis, blobs):
    """outcomes of decoding each byte string from the cleared pending slot, computed in a forked child: the calling process
    decodes nothing, so whatever process-wide state (caches, shared operand objects) these calls leave dies with the child"""
    import os
    import pickle
    r, w = os.pipe()
    pid = os.fork()
    if pid == 0:
        code = 0
        try:
            os.close(r)
            out = []
            for b in blobs:
                out.append(fresh(dis, b))
            with os.fdopen(w, "wb") as f:
                pickle.dump(out, f)
        except BaseException:
            code = 1
        os._exit(code)
    os.close(w)
    with os.fdopen(r, "rb") as f:
        data = f.read()
    os.waitpid(pid, 0)
    out = pickle.loads(data)
    return dict(zip(blobs, out))


def worker(args):
    name, k, seed, nspec, nhist, hlen, nmodel, xd = args
    XD[0] = xd
    import amoco.arch.core as core
    cpus, _ = isa.load_all()
    decmodel.install(core)
    dis = cpus[name].disassemble
    specs, _ = c04.mode_specs(dis, k)
    rng = random.Random(seed)
    res = {"name": name, "mode": k, "calls": 0, "hist": 0, "nontrivial": 0, "viol": [], "kinds": {}, "raisers": 0, "model": [], "samples": [], "leak2": []}
    with isa.ModeCtx(dis, k):
        pool, pfx = build_pool(rng, name, dis, specs, nspec)
        # fresh outcomes (cleared pending slot), computed twice in different orders to expose other global state
        allb = sorted({b for v in pool.values() for b in v})
        extra = []
        if pfx:
            # setup code that raises is rare on prefix ISAs: look for it under every specification
            e, ml = dis.endian(), dis.maxlen
            for s in specs:
                for _ in range(4):
                    extra.append(c04.spec_bytes(rng, s, e, ml) + bytes(rng.getrandbits(8) for _ in range(rng.choice([2, ml]))))
        # reference outcomes: each pass runs in its own forked child, in a different order - an outcome that depends on
        # the order (a cache, a shared operand object, a mode switch written by an earlier call) shows as a difference
        F = fresh_many(dis, allb + extra)
        rev = list(reversed(allb))
        F2 = fresh_many(dis, rev)
        shuf = list(allb)
        random.Random(seed ^ 0xABCDE).shuffle(shuf)
        F3 = fresh_many(dis, shuf)
        for b in allb:
            for o in (F2[b], F3[b]):
                if o != F[b] and len(res["leak2"]) < 3:
                    res["leak2"].append({"isa": name, "mode": k, "bytes": b.hex(), "first": F[b], "second": o})
        inpool = set(allb)
        for b in dict.fromkeys(extra):
            if b in inpool:
                continue                 # an extra input that is also a pool input keeps its reference outcome
            if F[b] is not None and "raised" in F[b]:
                allb.append(b)
                inpool.add(b)
            else:
                del F[b]
        raisers = [b for b in allb if F[b] is not None and "raised" in F[b]]
        res["raisers"] = len(raisers)
        pool["raiser"] = raisers[:200]
        more = []
        for pb in pool["prefix"][:12]:
            for r in raisers[:12]:
                b = pb + r
                pool["prefix+raiser"].append(b)
                more.append(b)
        more += [b for b in pool["prefix+truncated"] if b not in F]
        F.update(fresh_many(dis, more))
        kinds = [kd for kd, v in pool.items() if v]
        weights = {"valid": 5, "random": 2, "truncated": 2, "prefix": 3, "raiser": 3, "prefix+raiser": 4, "prefix+truncated": 3, "prefix+valid": 4, "suffix": 8,
                   "prefix-run": 4}
        for h in range(nhist):
            isa.reset_pending(dis)
            hist = []
            n = rng.randrange(3, hlen + 1)
            interesting = False
            for j in range(n):
                kd = rng.choices(kinds, [weights[x] for x in kinds])[0]
                b = rng.choice(pool[kd])
                hist.append((kd, b))
            res["hist"] += 1
            seenfail = False
            for j, (kd, b) in enumerate(hist):
                o = c04.outcome(lambda: call(dis, b))
                res["calls"] += 1
                res["kinds"][kd] = res["kinds"].get(kd, 0) + 1
                if kd in ("prefix", "raiser", "prefix+raiser", "prefix+truncated", "truncated", "prefix-run") or o is None:
                    seenfail = True
                if o != F[b]:
                    if len(res["viol"]) < 3:
                        # shrink: a single earlier call is usually enough
                        minimal = None
                        for jj in range(j - 1, -1, -1):
                            isa.reset_pending(dis)
                            c04.outcome(lambda: call(dis, hist[jj][1]))
                            if c04.outcome(lambda: call(dis, b)) != F[b]:
                                minimal = [hist[jj][1].hex(), b.hex()]
                                break
                        isa.reset_pending(dis)
                        res["viol"].append({"isa": name, "mode": k, "history": minimal or [x[1].hex() for x in hist[:j + 1]],
                                            "call": b.hex(), "suffix_mode": XD[0], "outcome_from_cleared_state": F[b], "outcome_after_history": o})
                    isa.reset_pending(dis)
                    break
            if seenfail:
                res["nontrivial"] += 1
            if len(res["samples"]) < 1:
                res["samples"].append({"isa": name, "mode": k, "history": [(kd, b.hex()) for kd, b in hist[:6]]})
        # trace-driven model cases (fresh state)
        cand = []
        for kd in kinds:
            cand += [(kd, b) for b in pool[kd][: max(4, nmodel // len(kinds))]]
        for kd, b in cand[:nmodel]:
            isa.reset_pending(dis)
            out, tr = decmodel.traced_call(dis, b)
            isa.reset_pending(dis)
            ids = {id(s): n for n, s in enumerate(specs)}
            if out[2] is not None and out[2].pfx == "xdata":
                continue
            if out[0] == 2 and tr and tr[-1][2] == "ok":
                continue
            res["model"].append(decmodel.coq_case(b, out, tr, ids))
    return res


def check(run):
    quick = run.tier == "quick"
    run.cov["rule"] = ("call history on one disassembler object per cpu module/mode: valid (spec-derived), random, truncated, prefix-only, "
                       "prefix+truncated, raising (inputs whose setup code raises), prefix+raising inputs and runs of maxlen-2 .. 3*maxlen prefix bytes "
                       "(one prefix repeated, alternating, mixed; alone or followed by an instruction) in random order; each outcome "
                       "compared with the outcome from the cleared state; distinct by history; non-trivial when the history contains a "
                       "prefix, truncated, raising or non-decoding call")
    run.static_part()
    cpus, failed = isa.load_all()
    import multiprocessing as mp
    tasks = []
    for name, cpu in sorted(cpus.items()):
        dis = cpu.disassemble
        for k in range(len(dis.specs)):
            haspfx = any(s.pfx is True for s in isa.flatten_tree(dis.specs[k]))
            reps = (2 if haspfx else 1) * (1 if quick else 6)
            for r in range(reps):
                tasks.append((name, k, run.seed * 977 + 13 * len(tasks), 150 if quick else 600, (60 if quick else 400) * (3 if haspfx else 1),
                              25, 60 if r == 0 else 0, False))
            if any(s.pfx == "xdata" for s in isa.flatten_tree(dis.specs[k])):
                for r in range(1 if quick else 4):
                    tasks.append((name, k, run.seed * 977 + 13 * len(tasks), 150 if quick else 600, 120 if quick else 800, 25, 0, True))
    with mp.get_context("fork").Pool(14, maxtasksperchild=1) as pool:
        results = pool.map(worker, tasks, chunksize=1)
    # corpus of minimised historical failures (after the pool: the parent must not decode before it forks)
    import glob
    for f in sorted(glob.glob(str(common.VERIF / "corpus" / "C11" / "*.json"))):
        c = json.load(open(f))
        if c["isa"] not in cpus:
            continue
        dis = cpus[c["isa"]].disassemble
        XD[0] = bool(c.get("suffix_mode"))
        with isa.ModeCtx(dis, c["mode"]):
            b = bytes.fromhex(c["call"])
            fr = fresh(dis, b)
            for h in c["history"][:-1]:
                c04.outcome(lambda: call(dis, bytes.fromhex(h)))
            o = c04.outcome(lambda: call(dis, b))
            isa.reset_pending(dis)
        run.count(("corpus", f))
        if o != fr:
            run.violation("history-dependence|%s_m%d" % (c["isa"], c["mode"]), "corpus case %s: outcome depends on earlier calls" % f.split("/")[-1],
                          dict(c, outcome_from_cleared_state=fr, outcome_after_history=o))
    groups = {}
    for r in results:
        run.cov["evaluations"] += r["calls"]
        run.hist("histories_by_isa", "%s_m%d" % (r["name"], r["mode"]), r["hist"])
        run.hist("raising_inputs_by_isa", "%s_m%d" % (r["name"], r["mode"]), r["raisers"])
        for kd, n in r["kinds"].items():
            run.hist("calls_by_kind", kd, n)
        run._distinct.update(("%s%d%d" % (r["name"], r["mode"], j)).encode() for j in range(r["nontrivial"]))
        for s in r["samples"]:
            run.sample(s, 6)
        for v in r["viol"][:2]:
            run.violation("history-dependence|%s_m%d" % (v["isa"], v["mode"]),
                          "outcome of disassemble(%s) depends on earlier calls" % v["call"], v)
        for v in r["leak2"][:1]:
            run.violation("global-state|%s_m%d" % (v["isa"], v["mode"]),
                          "outcome of disassemble(%s) from the cleared state changed between two passes" % v["bytes"], v)
        if r["model"]:
            groups.setdefault((r["name"], r["mode"]), []).extend(r["model"])
    # model correspondence
    texts = []
    for (name, k), rows in sorted(groups.items()):
        dis = cpus[name].disassemble
        specs, _ = c04.mode_specs(dis, k)
        nm = "c11_%s_m%d" % (name, k)
        txt, _ = decmodel.coq_file(nm, dis, k, specs, rows)
        texts.append((nm, txt))
    res = common.coq_eval_many(run.work / "model", texts, timeout=900)
    total = 0
    for nm, (rc, out) in sorted(res.items()):
        lists = common.parse_nat_list(out)
        if rc != 0 or len(lists) != 1:
            run.violation("model-eval|" + nm, "model evaluation failed", {"theorem_or_correspondence": "Dec correspondence " + nm, "output": out[-1200:]}, found_input=False)
            continue
        key = tuple(nm[4:].rsplit("_m", 1))
        rows = groups[(key[0], int(key[1]))]
        total += len(rows)
        for idx in lists[0][:2]:
            run.violation("model-impl-correspondence|" + nm[4:], "call skeleton model and disassembler.__call__ disagree",
                          {"theorem_or_correspondence": "Amoco.Dec.Corr.check_dcase", "case": rows[idx][:600]}, found_input=False)
    run.cov["model_cases_evaluated_in_coq"] = total
    run.cov["traces_validated_against_impl"] = total
    run.cov["trusted_base"] += ["harness/decmodel.py: wrapper around ispec.decode recording each call's result; live tree dump (as C04)"]
    run.assumptions += ["setup functions are modelled as abstract outcomes (accept+extra bytes / reject / raise); xdata suffix readers are outside the skeleton",
                        "'cleared state' = pending slot reset on the same object; other process-global state is probed by evaluating the pool twice in opposite orders"]
    return run


def replay(path):
    obj = json.load(open(path))["replay"]
    cpus, _ = isa.load_all()
    dis = cpus[obj["isa"]].disassemble
    XD[0] = bool(obj.get("suffix_mode"))
    with isa.ModeCtx(dis, obj["mode"]):
        b = bytes.fromhex(obj["call"])
        f = fresh(dis, b)
        for h in obj["history"][:-1] if obj["history"] and obj["history"][-1] == obj["call"] else obj["history"]:
            c04.outcome(lambda: call(dis, bytes.fromhex(h)))
        o = c04.outcome(lambda: call(dis, b))
        isa.reset_pending(dis)
    print(json.dumps({"from_cleared_state": f, "after_history": o}, indent=1))
    return 0 if f == o else 1
