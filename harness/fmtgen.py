# Independent PE/COFF and Mach-O references (struct-based readers written from the PE/COFF specification rev. 11 and
# <mach-o/loader.h>) and synthesisers of structurally valid header sets.  Intel-HEX / S-record encoders.
import struct
import random

# ------------------------------------------------------------------------------------------------ PE
COFF_FIELDS = ["Signature", "Machine", "NumberOfSections", "TimeDateStamp", "PointerToSymbolTable", "NumberOfSymbols",
               "SizeOfOptionalHeader", "Characteristics"]
OPT32 = ("<HBBIIIIIIIIIHHHHHHIIIIHHIIIIII",
         ["Magic", "MajorLinkerVersion", "MinorLinkerVersion", "SizeOfCode", "SizeOfInitializedData", "SizeOfUninitializedData",
          "AddressOfEntryPoint", "BaseOfCode", "BaseOfData", "ImageBase", "SectionAlignment", "FileAlignment",
          "MajorOperatingSystemVersion", "MinorOperatingSystemVersion", "MajorImageVersion", "MinorImageVersion",
          "MajorSubsystemVersion", "MinorSubsystemVersion", "Win32VersionValue", "SizeOfImage", "SizeOfHeaders", "CheckSum",
          "Subsystem", "DllCharacteristics", "SizeOfStackReserve", "SizeOfStackCommit", "SizeOfHeapReserve", "SizeOfHeapCommit",
          "LoaderFlags", "NumberOfRvaAndSizes"])
OPT64 = ("<HBBIIIIIQIIHHHHHHIIIIHHQQQQII", [n for n in OPT32[1] if n != "BaseOfData"])
SEC_FIELDS = ["Name", "VirtualSize", "RVA", "SizeOfRawData", "PointerToRawData", "PointerToRelocations", "PointerToLineNumbers",
              "NumberOfRelocations", "NumberOfLineNumbers", "Characteristics"]
DIRNAMES = ("ExportTable", "ImportTable", "ResourceTable", "ExceptionTable", "CertificateTable", "BaseRelocationTable", "Debug",
            "Architecture", "GlobalPtr", "TLSTable", "LoadConfigTable", "BoundImport", "IAT", "DelayImportDescriptor",
            "CLRRuntimeHeader", "Reserved")


def read_pe(b):
    if b[:2] != b"MZ" or len(b) < 64:
        raise ValueError("MZ")
    lfanew = struct.unpack_from("<I", b, 60)[0]
    R = {"e_lfanew": lfanew}
    R["coff"] = co = dict(zip(COFF_FIELDS, struct.unpack_from("<IHHIIIHH", b, lfanew)))
    if co["Signature"] != 0x4550:
        raise ValueError("PE")
    o = lfanew + 24
    magic = struct.unpack_from("<H", b, o)[0]
    f, names = OPT64 if magic == 0x20B else OPT32
    R["opt"] = op = dict(zip(names, struct.unpack_from(f, b, o)))
    d = o + struct.calcsize(f)
    R["dirs"] = []
    for i in range(min(op["NumberOfRvaAndSizes"], 16)):
        R["dirs"].append(struct.unpack_from("<II", b, d + 8 * i))
    so = o + co["SizeOfOptionalHeader"]
    R["sections"] = []
    for i in range(co["NumberOfSections"]):
        v = struct.unpack_from("<8sIIIIIIHHI", b, so + 40 * i)
        R["sections"].append(dict(zip(SEC_FIELDS, v)))
    return R


def pe_ref_locate(R, rva):
    """(section index, offset) | ('hdr', rva) | None, written from the loader rules: the first section whose virtual range
    holds the RVA; else the header area below SizeOfImage"""
    for i, s in enumerate(R["sections"]):
        if s["Characteristics"] == 0x800:
            continue
        if s["RVA"] <= rva < s["RVA"] + s["VirtualSize"]:
            return i, rva - s["RVA"]
    if 0 <= rva < R["opt"]["SizeOfImage"]:
        return "hdr", rva
    return None


class SynthPE:
    def __init__(self, rng, plus=None, imports=False):
        """imports: the first file-backed section starts with an import directory (descriptors, lookup / address tables with
        by-name and by-ordinal entries, hint/name entries, dll names); self.import_fields lists (file offset, width, what)
        of every RVA-valued field of it"""
        self.rng = rng
        plus = rng.random() < 0.5 if plus is None else plus
        f, names = OPT64 if plus else OPT32
        lfanew = rng.choice([64, 128, 0xE8, 8 * rng.randrange(8, 40)])
        nsec = rng.randrange(1, 6)
        ndirs = rng.choice([16, 16, 16, rng.randrange(0, 16)])
        # the COFF header says where the section table starts: the optional header may be followed by padding
        optsize = struct.calcsize(f) + 8 * ndirs + rng.choice([0, 0, 0, 8, 16, 40])
        falign, salign = rng.choice([(0x200, 0x1000), (0x200, 0x2000), (0x1000, 0x1000)])
        hdrsz = lfanew + 24 + optsize + 40 * nsec
        hdrsz_al = (hdrsz + falign - 1) // falign * falign
        secs, raw, rva = [], hdrsz_al, salign * ((hdrsz_al + salign - 1) // salign)
        blobs = []
        for i in range(nsec):
            vs = rng.randrange(1, 3 * falign)
            rs = rng.choice([0, (vs + falign - 1) // falign * falign, max(falign, (vs // 2) // falign * falign)])
            data = rng.randbytes(rs)
            secs.append(dict(Name=(".s%d" % i).encode().ljust(8, b"\0"), VirtualSize=vs, RVA=rva, SizeOfRawData=rs,
                             PointerToRawData=raw if rs else 0, PointerToRelocations=0, PointerToLineNumbers=0,
                             NumberOfRelocations=0, NumberOfLineNumbers=0,
                             Characteristics=rng.choice([0x60000020, 0xC0000040, 0x40000040, 0xC0000080])))
            blobs.append((raw, data))
            raw += rs
            rva += (max(vs, 1) + salign - 1) // salign * salign
        # PE32 images stay below 0x7E000000: the win32 loader puts the stack (up to 16 MB, SizeOfStackReserve) under 0x7ffff000
        op = {n: 0 for n in names}
        op.update(Magic=0x20B if plus else 0x10B, MajorLinkerVersion=rng.randrange(256), MinorLinkerVersion=rng.randrange(256),
                  SizeOfCode=rng.getrandbits(20), SizeOfInitializedData=rng.getrandbits(20), SizeOfUninitializedData=rng.getrandbits(12),
                  AddressOfEntryPoint=secs[0]["RVA"] + rng.randrange(0, secs[0]["VirtualSize"]), BaseOfCode=secs[0]["RVA"],
                  ImageBase=(rng.randrange(1, 0x7E00) << 16) if not plus else (rng.randrange(1, 1 << 30) << 16),
                  SectionAlignment=salign, FileAlignment=falign, MajorOperatingSystemVersion=rng.randrange(11), MinorOperatingSystemVersion=rng.randrange(4),
                  MajorImageVersion=rng.randrange(9), MinorImageVersion=rng.randrange(9), MajorSubsystemVersion=rng.randrange(11),
                  MinorSubsystemVersion=rng.randrange(4), Win32VersionValue=0, SizeOfImage=rva, SizeOfHeaders=hdrsz_al,
                  CheckSum=rng.getrandbits(32), Subsystem=rng.choice([2, 3, 1, 10]), DllCharacteristics=rng.getrandbits(16) & 0xFF60,
                  SizeOfStackReserve=rng.getrandbits(24), SizeOfStackCommit=rng.getrandbits(16), SizeOfHeapReserve=rng.getrandbits(24),
                  SizeOfHeapCommit=rng.getrandbits(16), LoaderFlags=0, NumberOfRvaAndSizes=ndirs)
        if not plus:
            op["BaseOfData"] = secs[-1]["RVA"]
        # directories amoco does not follow at construction time carry random values; Import/TLS stay empty
        dirs = []
        for i in range(ndirs):
            if DIRNAMES[i] in ("ImportTable", "TLSTable", "LoadConfigTable"):
                dirs.append((0, 0))
            else:
                dirs.append(rng.choice([(0, 0), (rng.getrandbits(20), rng.getrandbits(12))]))
        co = dict(Signature=0x4550, Machine=0x8664 if plus else rng.choice([0x14C, 0x1C0, 0x1C4]), NumberOfSections=nsec,
                  TimeDateStamp=rng.getrandbits(31), PointerToSymbolTable=0, NumberOfSymbols=0, SizeOfOptionalHeader=optsize,
                  Characteristics=rng.choice([0x102, 0x22, 0x2102, 0x10F]))
        img = bytearray(rng.randbytes(raw))
        img[0:64] = b"MZ" + rng.randbytes(58) + struct.pack("<I", lfanew)
        struct.pack_into("<IHHIIIHH", img, lfanew, *[co[n] for n in COFF_FIELDS])
        struct.pack_into(f, img, lfanew + 24, *[op[n] for n in names])
        d = lfanew + 24 + struct.calcsize(f)
        for i, (a, z) in enumerate(dirs):
            struct.pack_into("<II", img, d + 8 * i, a, z)
        so = lfanew + 24 + optsize
        for i, s in enumerate(secs):
            struct.pack_into("<8sIIIIIIHHI", img, so + 40 * i, *[s[n] for n in SEC_FIELDS])
        for o, data in blobs:
            img[o:o + len(data)] = data
        self.import_fields = []
        if imports:
            host = next((c for c in secs if c["SizeOfRawData"] >= 0x200 and c["VirtualSize"] >= 0x200), None)
            if host is not None and ndirs >= 2:
                w = 8 if plus else 4
                base_off, base_rva = host["PointerToRawData"], host["RVA"]
                ndll = rng.randrange(1, 3)
                blob = bytearray(0x200)
                cur = 20 * (ndll + 1)
                descs = []
                for k in range(ndll):
                    nimp = rng.randrange(1, 4)
                    ilt, iat = cur, cur + w * (nimp + 1)
                    cur = iat + w * (nimp + 1)
                    ents = []
                    for j in range(nimp):
                        if rng.random() < 0.3:
                            ents.append((1 << (8 * w - 1)) | rng.randrange(1, 500))
                        else:
                            nm = ("Func%d_%d" % (k, j)).encode() + b"\0"
                            struct.pack_into("<H", blob, cur, rng.randrange(100))
                            blob[cur + 2:cur + 2 + len(nm)] = nm
                            ents.append(base_rva + cur)
                            cur += 2 + len(nm) + (len(nm) & 1)
                    for j, v in enumerate(ents):
                        struct.pack_into("<Q" if plus else "<I", blob, ilt + w * j, v)
                        struct.pack_into("<Q" if plus else "<I", blob, iat + w * j, v)
                        self.import_fields += [(base_off + ilt + w * j, w, "lookup"), (base_off + iat + w * j, w, "address")]
                    dn = ("LIB%d.dll" % k).encode() + b"\0"
                    blob[cur:cur + len(dn)] = dn
                    descs.append((base_rva + ilt, rng.getrandbits(31), 0, base_rva + cur, base_rva + iat))
                    cur += len(dn) + (len(dn) & 1)
                for k, dsc in enumerate(descs):
                    struct.pack_into("<IIIII", blob, 20 * k, *dsc)
                    self.import_fields += [(base_off + 20 * k, 4, "descriptor.lookup"), (base_off + 20 * k + 12, 4, "descriptor.name"), (base_off + 20 * k + 16, 4, "descriptor.address")]
                if cur <= 0x200:
                    img[base_off:base_off + 0x200] = blob
                    dirs[1] = (base_rva, 20 * (ndll + 1))
                    struct.pack_into("<II", img, d + 8, *dirs[1])
                    self.import_fields += [(d + 8, 4, "directory.rva"), (d + 12, 4, "directory.size")]
                else:
                    self.import_fields = []
        self.image = bytes(img)
        self.coff, self.opt, self.dirs, self.sections, self.e_lfanew, self.plus = co, op, dirs, secs, lfanew, plus

    def describe(self):
        return {"plus": self.plus, "nsec": len(self.sections), "ndirs": len(self.dirs), "size": len(self.image)}


# -------------------------------------------------------------------------------------------- Mach-O
MH_MAGIC, MH_MAGIC_64 = 0xFEEDFACE, 0xFEEDFACF
LC_SEGMENT, LC_SYMTAB, LC_UNIXTHREAD, LC_UUID, LC_SEGMENT_64, LC_MAIN = 1, 2, 5, 0x1B, 0x19, 0x80000028
LC_VERSION_MIN_MACOSX, LC_SOURCE_VERSION = 0x24, 0x2A
SEG32 = ("<II16sIIIIiiII", ["cmd", "cmdsize", "segname", "vmaddr", "vmsize", "fileoffset", "filesize", "maxprot", "initprot", "nsects", "flags"])
SEG64 = ("<II16sQQQQiiII", SEG32[1])
SECT32 = ("<16s16sIIIIIIIII", ["sectname", "segname", "addr", "size_", "offset", "align", "reloff", "nreloc", "flags", "reserved1", "reserved2"])
SECT64 = ("<16s16sQQIIIIIIII", SECT32[1] + ["reserved3"])


def read_macho(b):
    magic = struct.unpack_from("<I", b, 0)[0]
    if magic not in (MH_MAGIC, MH_MAGIC_64):
        raise ValueError("magic")
    is64 = magic == MH_MAGIC_64
    hn = ["magic", "cputype", "cpusubtype", "filetype", "ncmds", "sizeofcmds", "flags"] + (["reserved"] if is64 else [])
    hdr = dict(zip(hn, struct.unpack_from("<IiiIIII" + ("I" if is64 else ""), b, 0)))
    o = 32 if is64 else 28
    R = {"is64": is64, "header": hdr, "cmds": [], "segments": [], "entry": None, "symbols": None}
    for k in range(hdr["ncmds"]):
        cmd, size = struct.unpack_from("<II", b, o)
        R["cmds"].append((cmd, size))
        if cmd in (LC_SEGMENT, LC_SEGMENT_64):
            f, names = SEG64 if cmd == LC_SEGMENT_64 else SEG32
            seg = dict(zip(names, struct.unpack_from(f, b, o)))
            seg["sections"] = []
            so = o + struct.calcsize(f)
            sf, sn = SECT64 if cmd == LC_SEGMENT_64 else SECT32
            for i in range(seg["nsects"]):
                seg["sections"].append(dict(zip(sn, struct.unpack_from(sf, b, so + i * struct.calcsize(sf)))))
            R["segments"].append(seg)
        elif cmd == LC_MAIN:
            R["main"] = struct.unpack_from("<QQ", b, o + 8)
        elif cmd == LC_UNIXTHREAD:
            flavor, count = struct.unpack_from("<II", b, o + 8)
            regs = struct.unpack_from("<%dI" % count, b, o + 16)
            if flavor == 4:      # x86_THREAD_STATE64: rip is the 17th 64-bit register
                R["entry"] = struct.unpack_from("<Q", b, o + 16 + 16 * 8)[0]
            elif flavor == 1:    # x86_THREAD_STATE32: eip is the 11th
                R["entry"] = regs[10]
        elif cmd == LC_SYMTAB:
            symoff, nsyms, stroff, strsize = struct.unpack_from("<IIII", b, o + 8)
            strtab = b[stroff:stroff + strsize]
            syms = []
            for i in range(nsyms):
                if is64:
                    strx, t, sect, desc, val = struct.unpack_from("<IBBHQ", b, symoff + 16 * i)
                else:
                    strx, t, sect, desc, val = struct.unpack_from("<IBBHI", b, symoff + 12 * i)
                j = strtab.find(b"\0", strx)
                syms.append((strtab[strx:j], t, sect, desc, val))
            R["symbols"] = syms
        o += size
    if "main" in R:
        base = None
        for s in R["segments"]:
            if s["fileoffset"] == 0 and s["filesize"] > 0:
                base = s["vmaddr"]
        R["entry"] = (base or 0) + R["main"][0]
    return R


def macho_ref_locate(R, addr):
    """(segment index, section index or None, file offset or None)"""
    for i, s in enumerate(R["segments"]):
        if s["vmaddr"] <= addr < s["vmaddr"] + s["vmsize"]:
            for j, c in enumerate(s["sections"]):
                if c["addr"] <= addr < c["addr"] + c["size_"]:
                    return i, j, (c["offset"] + addr - c["addr"]) if (c["flags"] & 0xFF) not in (1, 12) else None
            off = addr - s["vmaddr"]
            return i, None, (s["fileoffset"] + off) if off < s["filesize"] else None
    return None


class SynthMachO:
    def __init__(self, rng, is64=None):
        self.rng = rng
        is64 = rng.random() < 0.6 if is64 is None else is64
        self.is64 = is64
        segf, segn = SEG64 if is64 else SEG32
        secf, secn = SECT64 if is64 else SECT32
        nseg = rng.randrange(1, 4)
        page = 0x1000
        segs = []
        # __PAGEZERO-like first segment sometimes
        va = rng.randrange(1, 1 << 12) * page if is64 else rng.randrange(1, 1 << 8) * page
        if rng.random() < 0.5:
            segs.append(dict(segname=b"__PAGEZERO", vmaddr=0, vmsize=va, filesize=0, sections=[], prot=0))
        for i in range(nseg):
            fsz = rng.randrange(1, 4) * page if i == 0 else rng.choice([0, rng.randrange(1, 3) * page])
            vsz = fsz + rng.choice([0, page])
            if vsz == 0:
                vsz = page
            nsect = rng.randrange(0, 4) if fsz else 0
            sects = []
            # sections tile a part of the file-backed range
            lo = 0x200 if i == 0 else 0
            pts = sorted(rng.sample(range(lo, fsz), min(2 * nsect, max(0, fsz - lo)))) if nsect else []
            for j in range(len(pts) // 2):
                a, z = pts[2 * j], pts[2 * j + 1]
                sects.append(dict(sectname=("__s%d" % j).encode(), start=a, size=z - a,
                                  flags=rng.choice([0x80000400, 0, 2, 0x80000408 & 0xFFFFFF00 | 8])))
            segs.append(dict(segname=("__SEG%d" % i).encode() if i else b"__TEXT", vmaddr=va, vmsize=vsz, filesize=fsz,
                             sections=sects, prot=rng.choice([5, 3, 1, 7])))
            va += vsz + page * rng.choice([0, 0, 2])
        cmds = []
        # sizes first
        nsyms = rng.randrange(0, 6)
        use_main = rng.random() < 0.6
        lcs = []
        for s in segs:
            lcs.append(("seg", s, struct.calcsize(segf) + len(s["sections"]) * struct.calcsize(secf)))
        lcs.append(("symtab", None, 24))
        lcs.append(("uuid", None, 24))
        if use_main:
            lcs.append(("main", None, 24))
        else:
            lcs.append(("thread", None, 16 + (42 * 4 if is64 else 16 * 4)))
        if rng.random() < 0.5:
            lcs.append(("srcver", None, 16))
        first = lcs[:len(segs)]
        rest = lcs[len(segs):]
        rng.shuffle(rest)
        lcs = first + rest
        hsz = 32 if is64 else 28
        sizeofcmds = sum(z for _, _, z in lcs)
        assert hsz + sizeofcmds <= 0x200 + 3000
        # file layout: file-backed segments one after the other from offset 0 (first one holds the headers)
        fo = 0
        for s in segs:
            if s["filesize"]:
                s["fileoffset"] = fo
                fo += s["filesize"]
            else:
                s["fileoffset"] = 0 if s["vmaddr"] == 0 else fo
        strtab = b"\0"
        syms = []
        allsec = [(si, ji) for si, s in enumerate(segs) for ji, _ in enumerate(s["sections"])]
        for k in range(nsyms):
            nm = ("_sym%d%s" % (k, "y" * rng.randrange(0, 4))).encode()
            val = rng.choice([s for s in segs if s["filesize"]])
            syms.append((len(strtab), rng.choice([0x0F, 0x0E, 0x01]), rng.randrange(0, 4), rng.choice([0, 0x10, 0x80]),
                         val["vmaddr"] + rng.randrange(0, val["vmsize"]), nm))
            strtab += nm + b"\0"
        symoff = fo
        nl = 16 if is64 else 12
        stroff = symoff + nl * nsyms
        total = stroff + len(strtab)
        img = bytearray(rng.randbytes(total))
        text = next(s for s in segs if s["filesize"])
        entry_off = rng.randrange(0x200, text["filesize"]) if text["filesize"] > 0x200 else 0
        o = hsz
        self.cmdlist = []
        for kind, s, z in lcs:
            if kind == "seg":
                d = dict(cmd=LC_SEGMENT_64 if is64 else LC_SEGMENT, cmdsize=z, segname=s["segname"], vmaddr=s["vmaddr"], vmsize=s["vmsize"],
                         fileoffset=s["fileoffset"], filesize=s["filesize"], maxprot=7, initprot=s["prot"], nsects=len(s["sections"]), flags=0)
                struct.pack_into(segf, img, o, *[d[n] for n in segn])
                s["cmd"] = d
                so = o + struct.calcsize(segf)
                for j, c in enumerate(s["sections"]):
                    cd = dict(sectname=c["sectname"], segname=s["segname"], addr=s["vmaddr"] + c["start"], size_=c["size"],
                              offset=s["fileoffset"] + c["start"], align=rng.randrange(0, 5), reloff=0, nreloc=0, flags=c["flags"],
                              reserved1=0, reserved2=0, reserved3=0)
                    struct.pack_into(secf, img, so + j * struct.calcsize(secf), *[cd[n] for n in secn])
                    c["hdr"] = cd
                self.cmdlist.append((d["cmd"], z))
            elif kind == "symtab":
                struct.pack_into("<IIIIII", img, o, LC_SYMTAB, z, symoff, nsyms, stroff, len(strtab))
                self.cmdlist.append((LC_SYMTAB, z))
            elif kind == "uuid":
                struct.pack_into("<II16s", img, o, LC_UUID, z, rng.randbytes(16))
                self.cmdlist.append((LC_UUID, z))
            elif kind == "main":
                struct.pack_into("<IIQQ", img, o, LC_MAIN, z, entry_off, 0)
                self.cmdlist.append((LC_MAIN, z))
                self.entry = text["vmaddr"] + entry_off
            elif kind == "thread":
                if is64:
                    regs = [rng.getrandbits(64) for _ in range(21)]
                    self.entry = regs[16] = text["vmaddr"] + entry_off
                    struct.pack_into("<IIII21Q", img, o, LC_UNIXTHREAD, z, 4, 42, *regs)
                else:
                    regs = [rng.getrandbits(32) for _ in range(16)]
                    self.entry = regs[10] = text["vmaddr"] + entry_off
                    struct.pack_into("<IIII16I", img, o, LC_UNIXTHREAD, z, 1, 16, *regs)
                self.cmdlist.append((LC_UNIXTHREAD, z))
            elif kind == "srcver":
                struct.pack_into("<IIQ", img, o, LC_SOURCE_VERSION, z, rng.getrandbits(40))
                self.cmdlist.append((LC_SOURCE_VERSION, z))
            o += z
        for i, (strx, t, sect, desc, val, nm) in enumerate(syms):
            if is64:
                struct.pack_into("<IBBHQ", img, symoff + 16 * i, strx, t, sect, desc, val)
            else:
                struct.pack_into("<IBBHI", img, symoff + 12 * i, strx, t, sect, desc, val & 0xFFFFFFFF)
        img[stroff:stroff + len(strtab)] = strtab
        hdr = dict(magic=MH_MAGIC_64 if is64 else MH_MAGIC, cputype=0x01000007 if is64 else 7, cpusubtype=3, filetype=2,
                   ncmds=len(lcs), sizeofcmds=sizeofcmds, flags=rng.choice([0x00200085 & ~0x80, 0x1, 0x200001]), reserved=0)
        struct.pack_into("<IiiIIII" + ("I" if is64 else ""), img, 0,
                         *[hdr[n] for n in ["magic", "cputype", "cpusubtype", "filetype", "ncmds", "sizeofcmds", "flags"] + (["reserved"] if is64 else [])])
        self.image = bytes(img)
        self.header, self.segs, self.syms = hdr, segs, syms

    def describe(self):
        return {"is64": self.is64, "nseg": len(self.segs), "ncmds": len(self.cmdlist), "nsym": len(self.syms), "size": len(self.image)}


# ------------------------------------------------------------------------------------- HEX / SREC
def hexline(t, addr, data):
    body = bytes([len(data), (addr >> 8) & 255, addr & 255, t]) + data
    return b":" + (body + bytes([(-sum(body)) & 255])).hex().upper().encode()


SREC_ASZ = {0: 2, 1: 2, 2: 3, 3: 4, 5: 2, 6: 3, 7: 4, 8: 3, 9: 2}


def srecline(t, addr, data):
    asz = SREC_ASZ[t]
    body = bytes([asz + len(data) + 1]) + addr.to_bytes(asz, "big") + data
    return b"S%d" % t + (body + bytes([(~sum(body)) & 255])).hex().upper().encode()


def gen_hex(rng):
    """(text, data records [(address, bytes)], entry or None, lines).  HEX.decode builds one contiguous image of the
    address span, so the records of one file stay within about 1 MB: either low extended linear addresses mixed with
    any segment address, or a window around one high extended linear address announced by the first record."""
    recs, lines, mode = [], [], None
    high = rng.random() < 0.4
    hv = rng.randrange(1, 0xFFFF)
    if high:
        lines.append(hexline(4, 0, hv.to_bytes(2, "big")))
        mode = ("ela", hv)
    for k in range(rng.randrange(1, 9)):
        c = rng.random()
        if c < 0.18 and not high:
            v = rng.getrandbits(16)
            lines.append(hexline(2, 0, v.to_bytes(2, "big")))
            mode = ("seg", v)
        elif c < 0.36:
            v = rng.randrange(0, 16) if not high else hv + rng.choice([-1, 0, 1])
            lines.append(hexline(4, 0, v.to_bytes(2, "big")))
            mode = ("ela", v)
        else:
            a = rng.getrandbits(16)
            d = rng.randbytes(rng.choice([1, 2, 16, 32, rng.randrange(1, 255)]))
            lines.append(hexline(0, a, d))
            base = 0 if mode is None else (mode[1] * 16 if mode[0] == "seg" else mode[1] << 16)
            recs.append((base + a, d))
    if not high and rng.random() < 0.35:
        # switches of addressing mode: linear -> segment -> linear 0 -> segment, each followed by data
        for kind, v in (("ela", rng.randrange(1, 16)), ("seg", rng.getrandbits(16) | 1), ("ela", 0), ("seg", rng.getrandbits(12))):
            if rng.random() < 0.7:
                lines.append(hexline(4 if kind == "ela" else 2, 0, v.to_bytes(2, "big")))
                mode = (kind, v)
                a = rng.getrandbits(16)
                d = rng.randbytes(rng.randrange(1, 9))
                lines.append(hexline(0, a, d))
                recs.append(((mode[1] * 16 if kind == "seg" else mode[1] << 16) + a, d))
    entry = None
    c = rng.random()
    if c < 0.35:
        entry = rng.getrandbits(32)
        lines.append(hexline(5, 0, entry.to_bytes(4, "big")))
    elif c < 0.5:
        cs, ip = rng.getrandbits(16), rng.getrandbits(16)
        entry = (cs, ip)
        lines.append(hexline(3, 0, cs.to_bytes(2, "big") + ip.to_bytes(2, "big")))
    lines.append(hexline(1, 0, b""))
    if rng.random() < 0.3:
        lines = [l.lower().replace(b":", b":") if rng.random() < 0.5 else l for l in lines]
    eol = rng.choice([b"\n", b"\r\n"])
    return eol.join(lines) + eol, recs, entry, lines


def gen_srec(rng):
    lines = [srecline(0, 0, bytes(rng.choice(b"abcxyz ") for _ in range(rng.randrange(0, 12))))]
    recs = []
    t = rng.choice([1, 2, 3])
    for k in range(rng.randrange(1, 9)):
        a = rng.getrandbits({1: 16, 2: 24, 3: 32}[t])
        d = rng.randbytes(rng.choice([1, 2, 16, 32, rng.randrange(1, 250)]))
        lines.append(srecline(t, a, d))
        recs.append((a, d))
    if rng.random() < 0.5:
        lines.append(srecline(5, len(recs), b""))
    te = {1: 9, 2: 8, 3: 7}[t]
    entry = rng.getrandbits({9: 16, 8: 24, 7: 32}[te])
    lines.append(srecline(te, entry, b""))
    eol = rng.choice([b"\n", b"\r\n"])
    return eol.join(lines) + eol, recs, entry, lines


def srec_file_valid(text):
    """Independent S-record file validator (Motorola S-record layout: 'S', one type digit, then hex byte pairs: a count
    byte that equals the number of bytes after it, a 2/3/4-byte address fixed by the type, data, and the ones' complement
    of the low byte of the sum of all bytes from the count on).  Blank lines are skipped; a file needs one record."""
    n = 0
    for line in text.split(b"\n"):
        l = line.strip()
        if not l:
            continue
        if len(l) < 4 or l[0:1] != b"S" or l[1:2] not in b"012356789":
            return False
        h = l[2:]
        if len(h) % 2 or any(c not in b"0123456789ABCDEFabcdef" for c in h):
            return False
        raw = bytes.fromhex(h.decode())
        if raw[0] != len(raw) - 1 or raw[0] < SREC_ASZ[int(l[1:2])] + 1:
            return False
        if (~sum(raw[:-1])) & 255 != raw[-1]:
            return False
        n += 1
    return n > 0


def tiny_macho(rng, is64, minimal=False):
    """a thin image of a few hundred bytes: header, one __TEXT segment (0-1 sections) covering the file, optional
    LC_UUID / LC_MAIN / LC_SOURCE_VERSION (minimal: the segment command alone)"""
    hsz = 32 if is64 else 28
    segf, segn = SEG64 if is64 else SEG32
    secf, secn = SECT64 if is64 else SECT32
    nsect = 0 if minimal else rng.randrange(0, 2)
    lcs = [("seg", struct.calcsize(segf) + nsect * struct.calcsize(secf))]
    if not minimal and rng.random() < 0.5:
        lcs.append(("uuid", 24))
    if not minimal and rng.random() < 0.5:
        lcs.append(("main", 24))
    if not minimal and rng.random() < 0.3:
        lcs.append(("srcver", 16))
    sizeofcmds = sum(z for _, z in lcs)
    total = hsz + sizeofcmds + rng.randrange(8, 64)
    img = bytearray(rng.randbytes(total))
    va = rng.randrange(1, 256) * 0x1000
    o = hsz
    for k, z in lcs:
        if k == "seg":
            d = dict(cmd=LC_SEGMENT_64 if is64 else LC_SEGMENT, cmdsize=z, segname=b"__TEXT", vmaddr=va, vmsize=0x1000, fileoffset=0,
                     filesize=total, maxprot=7, initprot=5, nsects=nsect, flags=0)
            struct.pack_into(segf, img, o, *[d[n] for n in segn])
            for j in range(nsect):
                cd = dict(sectname=b"__text", segname=b"__TEXT", addr=va + hsz + sizeofcmds, size_=total - hsz - sizeofcmds,
                          offset=hsz + sizeofcmds, align=0, reloff=0, nreloc=0, flags=0x80000400, reserved1=0, reserved2=0, reserved3=0)
                struct.pack_into(secf, img, o + struct.calcsize(segf), *[cd[n] for n in secn])
        elif k == "uuid":
            struct.pack_into("<II16s", img, o, LC_UUID, z, rng.randbytes(16))
        elif k == "main":
            struct.pack_into("<IIQQ", img, o, LC_MAIN, z, hsz + sizeofcmds, 0)
        else:
            struct.pack_into("<IIQ", img, o, LC_SOURCE_VERSION, z, rng.getrandbits(40))
        o += z
    vals = [MH_MAGIC_64 if is64 else MH_MAGIC, 0x01000007 if is64 else 7, 3, 2, len(lcs), sizeofcmds, 1] + ([0] if is64 else [])
    struct.pack_into("<IiiIIII" + ("I" if is64 else ""), img, 0, *vals)
    return bytes(img)


FAT_MAGIC = 0xCAFEBABE


def fat_image(slices, align=12):
    """universal binary (<mach-o/fat.h>: big-endian fat_header {magic, nfat_arch}, then nfat_arch fat_arch entries
    {cputype, cpusubtype, offset, size, align}) holding the given thin images, each at a multiple of 2**align.
    Returns (bytes, [(file position of the entry's offset field, file position of its size field)])."""
    n = len(slices)
    pos = 8 + 20 * n
    ents = []
    for s in slices:
        pos = (pos + (1 << align) - 1) >> align << align
        ents.append((pos, len(s)))
        pos += len(s)
    out = bytearray(struct.pack(">II", FAT_MAGIC, n))
    for (o, z), s in zip(ents, slices):
        cpu, sub = struct.unpack_from("<II", s, 4) if len(s) >= 12 else (7, 3)
        out += struct.pack(">IIIII", cpu, sub, o, z, align)
    for (o, z), s in zip(ents, slices):
        out += b"\0" * (o - len(out))
        out += s
    return bytes(out), [(8 + 20 * i + 8, 8 + 20 * i + 12) for i in range(n)]


# ------------------------------------------------------------- tiny images with the positions of their table descriptors
def _setfields(image, fields, values):
    """a copy of the image with the named descriptor fields rewritten; fields: name -> (file offset, width, byte order)"""
    m = bytearray(image)
    for k, v in values.items():
        off, w, order = fields[k]
        m[off:off + w] = (v & ((1 << (8 * w)) - 1)).to_bytes(w, order)
    return bytes(m)


def tiny_pe(rng, plus):
    """a PE image of about half a kilobyte: DOS header, PE/COFF header, optional header with 16 data directories, two
    section headers, 32 bytes of raw data per section (8 bytes of content, zero fill; SectionAlignment == FileAlignment == 16: below the page size the
    two must be equal, PE/COFF specification, optional header windows-specific fields).  The ImportTable / TLS / LoadConfig
    directories are empty.  Returns (bytes, fields, true) - fields: name -> (file offset, width, 'little') of every field
    that describes a table (e_lfanew, NumberOfSections, SizeOfOptionalHeader, NumberOfRvaAndSizes, dir<i>.rva / dir<i>.size,
    sec<i>.<field>), true: the values of the intact file plus 'rvas' (section RVAs) and 'SizeOfImage'."""
    f, names = OPT64 if plus else OPT32
    lfanew, nsec, ndirs, al = 64, 2, 16, 16
    optsize = struct.calcsize(f) + 8 * ndirs
    hdrsz = (lfanew + 24 + optsize + 40 * nsec + al - 1) // al * al
    secs, raw, rva = [], hdrsz, hdrsz
    for i in range(nsec):
        secs.append(dict(Name=(b".text", b".data")[i].ljust(8, b"\0"), VirtualSize=rng.randrange(17, 33), RVA=rva, SizeOfRawData=32, PointerToRawData=raw,
                         PointerToRelocations=0, PointerToLineNumbers=0, NumberOfRelocations=0, NumberOfLineNumbers=0,
                         Characteristics=(0x60000020, 0xC0000040)[i]))
        raw += 32
        rva += 32
    op = {n: 0 for n in names}
    op.update(Magic=0x20B if plus else 0x10B, MajorLinkerVersion=14, SizeOfCode=32, SizeOfInitializedData=32, AddressOfEntryPoint=secs[0]["RVA"],
              BaseOfCode=secs[0]["RVA"], ImageBase=rng.randrange(1, 0x7E00) << 16, SectionAlignment=al, FileAlignment=al, MajorOperatingSystemVersion=6,
              MajorSubsystemVersion=6, SizeOfImage=rva, SizeOfHeaders=hdrsz, Subsystem=3, DllCharacteristics=0x8160, SizeOfStackReserve=0x100000,
              SizeOfStackCommit=0x1000, SizeOfHeapReserve=0x100000, SizeOfHeapCommit=0x1000, NumberOfRvaAndSizes=ndirs)
    if not plus:
        op["BaseOfData"] = secs[1]["RVA"]
    co = dict(Signature=0x4550, Machine=0x8664 if plus else 0x14C, NumberOfSections=nsec, TimeDateStamp=rng.getrandbits(31), PointerToSymbolTable=0,
              NumberOfSymbols=0, SizeOfOptionalHeader=optsize, Characteristics=0x22 if plus else 0x102)
    img = bytearray(raw)
    img[0:64] = b"MZ" + bytes(58) + struct.pack("<I", lfanew)
    struct.pack_into("<IHHIIIHH", img, lfanew, *[co[n] for n in COFF_FIELDS])
    struct.pack_into(f, img, lfanew + 24, *[op[n] for n in names])
    d = lfanew + 24 + struct.calcsize(f)
    for s in secs:
        # a few bytes of content, zero fill
        img[s["PointerToRawData"]:s["PointerToRawData"] + 8] = rng.randbytes(8)
    so = lfanew + 24 + optsize
    fields = {"e_lfanew": (60, 4, "little"), "NumberOfSections": (lfanew + 6, 2, "little"), "SizeOfOptionalHeader": (lfanew + 20, 2, "little"),
              "NumberOfRvaAndSizes": (d - 4, 4, "little"), "SizeOfImage": (lfanew + 24 + 56, 4, "little"), "SizeOfHeaders": (lfanew + 24 + 60, 4, "little")}
    for i in range(ndirs):
        fields["dir%d.rva" % i] = (d + 8 * i, 4, "little")
        fields["dir%d.size" % i] = (d + 8 * i + 4, 4, "little")
    for i, s in enumerate(secs):
        struct.pack_into("<8sIIIIIIHHI", img, so + 40 * i, *[s[n] for n in SEC_FIELDS])
        for n, o, w in (("VirtualSize", 8, 4), ("RVA", 12, 4), ("SizeOfRawData", 16, 4), ("PointerToRawData", 20, 4), ("PointerToRelocations", 24, 4),
                        ("NumberOfRelocations", 32, 2)):
            fields["sec%d.%s" % (i, n)] = (so + 40 * i + o, w, "little")
    true = dict(e_lfanew=lfanew, NumberOfSections=nsec, SizeOfOptionalHeader=optsize, NumberOfRvaAndSizes=ndirs, SizeOfImage=rva, SizeOfHeaders=hdrsz,
                rvas=[s["RVA"] for s in secs], section_table=so)
    return bytes(img), fields, true


def tiny_macho_tables(rng, is64):
    """a thin Mach-O image of a few hundred bytes whose load commands describe tables: one __TEXT segment with one section,
    LC_SYMTAB (two nlist entries, a string table), LC_UUID.  Returns (bytes, fields, true) - fields: name -> (file offset, width,
    'little') of ncmds, sizeofcmds, cmd<k>.cmdsize, nsects, symoff, nsyms, stroff, strsize; true: their intact values."""
    hsz = 32 if is64 else 28
    segf, segn = SEG64 if is64 else SEG32
    secf, secn = SECT64 if is64 else SECT32
    nl = 16 if is64 else 12
    lcs = [("seg", struct.calcsize(segf) + struct.calcsize(secf)), ("symtab", 24), ("uuid", 24)]
    sizeofcmds = sum(z for _, z in lcs)
    text = hsz + sizeofcmds
    ntext = rng.randrange(8, 33)
    symoff = (text + ntext + 7) // 8 * 8
    strtab = b"\0_main\0_x\0"
    stroff = symoff + 2 * nl
    total = stroff + len(strtab)
    img = bytearray(rng.randbytes(total))
    va = rng.randrange(1, 256) * 0x1000
    fields, true = {"ncmds": (16, 4, "little"), "sizeofcmds": (20, 4, "little")}, {"ncmds": len(lcs), "sizeofcmds": sizeofcmds, "cmdsize": [z for _, z in lcs]}
    o = hsz
    for k, (kind, z) in enumerate(lcs):
        fields["cmd%d.cmdsize" % k] = (o + 4, 4, "little")
        if kind == "seg":
            d = dict(cmd=LC_SEGMENT_64 if is64 else LC_SEGMENT, cmdsize=z, segname=b"__TEXT", vmaddr=va, vmsize=0x1000, fileoffset=0, filesize=total,
                     maxprot=7, initprot=5, nsects=1, flags=0)
            struct.pack_into(segf, img, o, *[d[n] for n in segn])
            fields["nsects"] = (o + struct.calcsize(segf) - 8, 4, "little")
            cd = dict(sectname=b"__text", segname=b"__TEXT", addr=va + text, size_=ntext, offset=text, align=0, reloff=0, nreloc=0, flags=0x80000400,
                      reserved1=0, reserved2=0, reserved3=0)
            struct.pack_into(secf, img, o + struct.calcsize(segf), *[cd[n] for n in secn])
        elif kind == "symtab":
            struct.pack_into("<IIIIII", img, o, LC_SYMTAB, z, symoff, 2, stroff, len(strtab))
            for j, n in enumerate(("symoff", "nsyms", "stroff", "strsize")):
                fields[n] = (o + 8 + 4 * j, 4, "little")
            true.update(symoff=symoff, nsyms=2, stroff=stroff, strsize=len(strtab))
        else:
            struct.pack_into("<II16s", img, o, LC_UUID, z, rng.randbytes(16))
        o += z
    for i, (strx, val) in enumerate(((1, va + text), (7, va + text + 4))):
        if is64:
            struct.pack_into("<IBBHQ", img, symoff + 16 * i, strx, 0x0F, 1, 0, val)
        else:
            struct.pack_into("<IBBHI", img, symoff + 12 * i, strx, 0x0F, 1, 0, val)
    img[stroff:stroff + len(strtab)] = strtab
    vals = [MH_MAGIC_64 if is64 else MH_MAGIC, 0x01000007 if is64 else 7, 3, 2, len(lcs), sizeofcmds, 1] + ([0] if is64 else [])
    struct.pack_into("<IiiIIII" + ("I" if is64 else ""), img, 0, *vals)
    true["nsects"] = 1
    return bytes(img), fields, true


def tiny_coff(rng, opthdr=True):
    """a System V COFF object / executable of a few hundred bytes (filehdr.h / aouthdr.h / scnhdr.h / syms.h): file header,
    optional a.out header, two section headers (.text with one relocation and one line number entry, .data), raw data,
    relocation and line number entries, a symbol table of two entries and a string table.  Returns (bytes, fields, true) -
    fields: name -> (file offset, width, 'little') of f_nscns, f_symptr, f_nsyms, f_opthdr, sec<i>.{s_size, s_scnptr, s_relptr,
    s_lnnoptr, s_nreloc, s_nlnno}."""
    osz = 28 if opthdr else 0
    nsec = 2
    so = 20 + osz
    raw0 = so + 40 * nsec
    n0, n1 = rng.randrange(8, 25) & ~3, rng.randrange(4, 17) & ~3
    raw1 = raw0 + n0
    rel = raw1 + n1
    lnn = rel + 10
    symptr = lnn + 6
    strtab = struct.pack("<I", 4 + 12) + b"a_long_name\0"
    total = symptr + 2 * 18 + len(strtab)
    img = bytearray(rng.randbytes(total))
    magic = rng.choice([0x14C, 0x14C, 0x154, 0x175])
    struct.pack_into("<HHiiiHH", img, 0, magic, nsec, rng.getrandbits(30), symptr, 2, osz, 0x0104 | (2 if opthdr else 0))
    if opthdr:
        struct.pack_into("<hhiiiIii", img, 20, 0o413, 0, n0, n1, 0, 0x1000, 0x1000, 0x2000)
    struct.pack_into("<8sIIIiiiHHi", img, so, b".text\0\0\0", 0x1000, 0x1000, n0, raw0, rel, lnn, 1, 1, 0x20)
    struct.pack_into("<8sIIIiiiHHi", img, so + 40, b".data\0\0\0", 0x2000, 0x2000, n1, raw1, 0, 0, 0, 0, 0x40)
    struct.pack_into("<iiH", img, rel, 0x1000, 0, 6)
    struct.pack_into("<iH", img, lnn, 0, 0)
    struct.pack_into("<8sIhHbB", img, symptr, b"_start\0\0", 0x1000, 1, 0x20, 2, 0)
    struct.pack_into("<iiIhHbB", img, symptr + 18, 0, 4, 0x2000, 2, 0, 2, 0)
    img[symptr + 36:] = strtab
    fields = {"f_nscns": (2, 2, "little"), "f_symptr": (8, 4, "little"), "f_nsyms": (12, 4, "little"), "f_opthdr": (16, 2, "little")}
    for i in range(nsec):
        for n, o, w in (("s_size", 16, 4), ("s_scnptr", 20, 4), ("s_relptr", 24, 4), ("s_lnnoptr", 28, 4), ("s_nreloc", 32, 2), ("s_nlnno", 34, 2)):
            fields["sec%d.%s" % (i, n)] = (so + 40 * i + o, w, "little")
    true = dict(f_nscns=nsec, f_symptr=symptr, f_nsyms=2, f_opthdr=osz, section_table=so)
    return bytes(img), fields, true
