# C17 — decoding and executing any bytes never crashes; instructions are well formed.
# Static: theorems of coq/Properties/C17.v over Amoco.Dec.Disasm: the dispatch skeleton is total (never raises,
# never loops) provided setup functions only accept or reject; well-formedness of what it returns.
# The hypothesis about the ~4700 hand-written setup / format / semantics functions cannot be carried by a
# Gallina model: it is enumerated here (every spec reached with boundary and random field values), and every
# crash site is a finding keyed  isa|stage|function|exception.
import json
import pickle
import random
import signal
import traceback
import zlib

import common
import isa
import c04
import decmodel

LEVEL = "proof"
STAGES = ("decode", "wellformed", "str", "toks", "format", "pickle", "semantics")


class Timeout(Exception):
    pass


def _alarm(signum, frame):
    import os
    if os.environ.get("C17_DEBUG"):
        import time
        with open("/tmp/c17dbg.%d" % os.getpid(), "a") as f:
            f.write("ALARM at %.2f\n" % time.time())
            traceback.print_stack(frame, limit=14, file=f)
    raise Timeout()


def site(e):
    """'file:function' of the innermost ISA-specific frame (amoco/arch/...: the setup, format or semantics function at
    fault), followed by the innermost amoco frame when the exception comes from deeper in the library"""
    tb = traceback.extract_tb(e.__traceback__)
    arch = lib = None
    for fr in tb:
        if "/amoco/arch/" in fr.filename and not fr.filename.endswith("/arch/core.py"):
            arch = fr
        if "/amoco/" in fr.filename:
            lib = fr
    if lib is None:
        lib = tb[-1] if tb else None
    if lib is None:
        return "?"
    name = lambda fr: "%s:%s" % (fr.filename.split("/amoco/")[-1], fr.name)
    if arch is not None and arch is not lib:
        return name(arch) + ">" + name(lib)
    return name(lib)


def fills(rng, s, nrand, nsparse=0):
    """field-value fills for a spec: all-zero, all-one don't-care bits, then pseudo-random"""
    n = s.fix.size
    yield 0
    yield (1 << n) - 1
    for _ in range(nrand):
        yield rng.getrandbits(n)
    for _ in range(nsparse):
        yield c04.sparse_bits(rng, n)


def worker(args):
    name, k, seed, nfill, nrandom = args
    import amoco.arch.core as core
    from amoco.cas.mapper import mapper
    from amoco.cas.expressions import exp
    cpus, _ = isa.load_all()
    cpu = cpus[name]
    dis = cpu.disassemble
    specs, _ = c04.mode_specs(dis, k)
    fmts = [(n, v) for n, v in sorted(vars(cpu).items()) if isinstance(v, core.Formatter)]
    res = {"name": name, "mode": k, "n": 0, "decoded": 0, "finds": {}, "stages": {}, "samples": [], "mnemonics": set()}
    # CPU-time limits (ITIMER_PROF), not wall-clock alarms: on a loaded machine a 10 s wall alarm fires on probes that need 10 ms
    signal.signal(signal.SIGPROF, _alarm)

    def arm(seconds):
        signal.setitimer(signal.ITIMER_PROF, seconds)
    e = dis.endian()
    ml = dis.maxlen

    hist = [None]
    import amoco.cas.expressions as E
    try:
        pcsize = cpu.PC().size
    except Exception:
        pcsize = 32

    chain_in = []

    def run_chains(batch):
        """the map an emulation or a block builds is not fresh: the instructions of one specification applied one after the
        other to the same map (after the last instruction of the previous specification's chain) - pending delay slots,
        widths and flags recorded by one are seen by the next.  A batch of chains runs in a forked child: expression objects
        shared process-wide are re-shaped in place by execution, and neither that nor a time-out may reach the other probes;
        a time-out ends the batch (what was found before it does not depend on it)."""
        import os
        r, w = os.pipe()
        pid = os.fork()
        if pid == 0:
            out = []
            try:
                os.close(r)
                for prev, blobs in batch:
                    m = mapper()
                    done = []
                    for n, b in enumerate(([prev] if prev else []) + blobs):
                        arm(5)
                        try:
                            isa.reset_pending(dis)
                            i = dis(b)
                            if i is None:
                                continue
                            i.address = E.cst(0x401000 if pcsize >= 24 else 0x1000, pcsize)
                            i(m)
                            done.append(bytes(i.bytes).hex())
                        except Exception as x:
                            if isinstance(x, Timeout):
                                raise             # expression growth on an accumulated map is a cost, not a raise
                            if prev and n == 0:
                                m = mapper()
                                continue
                            out.append(["%s|semantics|%s|%s" % (name, site(x), type(x).__name__), b.hex(), list(done), repr(x)[:160]])
                            m = mapper()
                            done = []
                        finally:
                            arm(0)
            except Timeout:
                pass
            finally:
                try:
                    with os.fdopen(w, "w") as f:
                        json.dump(out, f)
                finally:
                    os._exit(0)
        os.close(w)
        with os.fdopen(r) as f:
            data = f.read()
        os.waitpid(pid, 0)
        for key, bb, done, err in (json.loads(data) if data else []):
            if key not in res["finds"]:
                res["finds"][key] = {"isa": name, "mode": k, "stage": "semantics", "bytes": bb, "history": [],
                                     "executed_before_on_the_same_map": done, "error": err}

    def finding(stage, exc, b, extra=None):
        key = "%s|%s|%s|%s" % (name, stage, site(exc) if isinstance(exc, BaseException) else exc, type(exc).__name__ if isinstance(exc, BaseException) else "malformed")
        if key not in res["finds"]:
            res["finds"][key] = {"isa": name, "mode": k, "stage": stage, "bytes": b.hex(), "history": [hist[0]] if hist[0] else [],
                                 "executed_before_on_the_same_map": [],
                                 "error": (repr(exc)[:160] if isinstance(exc, BaseException) else str(extra)[:160])}

    def probe(b, light=False, chained=False):
        res["n"] += 1
        # the decoder keeps whatever its earlier calls left; sometimes junk that is not an instruction is decoded first
        hist[0] = isa.junk_history(dis, (name, k))
        arm(10)
        try:
            try:
                i = dis(b)
            except Timeout:
                finding("decode", Timeout("decode did not terminate in 10 s of CPU time"), b)
                return
            except RecursionError as x:
                finding("decode", x, b)
                return
            except Exception as x:
                finding("decode", x, b)
                return
            if i is None:
                return
            res["decoded"] += 1
            res["mnemonics"].add(str(i.mnemonic))
            # well-formedness
            if not (isinstance(i.mnemonic, str) and i.mnemonic):
                finding("wellformed", "mnemonic", b, "mnemonic=%r" % (i.mnemonic,))
            if i.type not in core.INSTRUCTION_TYPES:
                finding("wellformed", "type", b, "type=%r" % (i.type,))
            if not (isinstance(i.bytes, bytes) and 1 <= len(i.bytes) <= len(b) and i.bytes == b[:len(i.bytes)]):
                finding("wellformed", "length", b, "bytes=%r" % (i.bytes,))
            try:
                bad = [o for o in i.operands if not isinstance(o, exp)]
            except Exception as x:
                bad = []
                finding("wellformed", x, b)
            if bad:
                finding("wellformed", "operands", b, "non-expression operand %r (%s) set by %s" % (bad[0], type(bad[0]).__name__, i.spec.hook.__name__ if i.spec else "?"))
            for stage, f in (("str", lambda: str(i)), ("toks", lambda: i.toks())):
                try:
                    f()
                except Timeout:
                    raise
                except Exception as x:
                    finding(stage, x, b)
            for fname, F in fmts:
                try:
                    F(i)
                    F(i, toks=True)
                except Timeout:
                    raise
                except Exception as x:
                    finding("format:" + fname, x, b)
            if light:
                return            # word sweep: decoding, well-formedness and rendering only
            try:
                j = pickle.loads(pickle.dumps(i))
                c1, c2 = c04.canon(i), c04.canon(j)
                if c1 != c2:
                    finding("pickle", "roundtrip-differs", b, "before=%s after=%s" % (json.dumps(c1)[:70], json.dumps(c2)[:70]))
            except Timeout:
                raise
            except Exception as x:
                finding("pickle", x, b)
            try:
                m = mapper()
                i(m)
            except Timeout:
                raise
            except Exception as x:
                finding("semantics", x, b)
            # the same instruction once it has an address (as set by the sweep / read_instruction): rendering of relative
            # branches and pc-relative semantics take other paths then (same stage names: a crash site is one finding
            # whether or not the address is needed to reach it)
            try:
                i.address = E.cst(0x401000 if pcsize >= 24 else 0x1000, pcsize)
            except Exception as x:
                finding("address", x, b)
            else:
                for stage, f in (("str", lambda: str(i)), ("toks", lambda: i.toks())):
                    try:
                        f()
                    except Timeout:
                        raise
                    except Exception as x:
                        finding(stage, x, b)
                for fname, F in fmts:
                    try:
                        F(i)
                    except Timeout:
                        raise
                    except Exception as x:
                        finding("format:" + fname, x, b)
                try:
                    i(mapper())
                except Timeout:
                    raise
                except Exception as x:
                    finding("semantics", x, b)
                if chained:
                    chain_in.append(b)
            if len(res["samples"]) < 1:
                res["samples"].append({"isa": name, "mode": k, "bytes": b.hex(), "mnemonic": i.mnemonic, "length": len(i.bytes)})
        except Timeout:
            finding("timeout", Timeout("stage did not terminate in 10 s of CPU time"), b)
        finally:
            arm(0)

    with isa.ModeCtx(dis, k):
        batch = []
        for si, s in enumerate(specs):
            prev_chain, chain_in[:] = (chain_in[-1] if chain_in else None), []
            # deterministic per-spec stream (independent of VERIF_SEED) + a seed-dependent share
            rng = random.Random(zlib.crc32(s.format.encode()) * 31 + 7)
            rs = random.Random(seed * 65537 + si)
            for fi, fill in enumerate(fills(rng, s, nfill, 24 if len(specs) <= 450 else 2)):
                head = c04.spec_bytes(rng, s, e, ml, fill=fill)
                tail = bytes(rng.getrandbits(8) for _ in range(ml + 2)) if fi % 2 == 0 else bytes([0, 0xff] * 8)
                probe(head + tail, chained=fi < 3)
            head = c04.spec_bytes(rs, s, e, ml)
            probe(head + bytes(rs.getrandbits(8) for _ in range(rs.choice([0, 1, ml + 2]))))
            if name in ("x86_x86", "x64_x64"):
                # operand-size / address-size / repeat prefixes (and REX) change operand widths: every spec is reached behind each
                head = c04.spec_bytes(rng, s, e, ml)
                tail = bytes(rng.getrandbits(8) for _ in range(ml))
                for pf in ([b"\x66", b"\x67", b"\x66\x67", b"\xf3"] + ([b"\x48", b"\x41", b"\x66\x4c"] if name == "x64_x64" else [])):
                    probe(pf + head + tail)
            if chain_in:
                batch.append((prev_chain, list(chain_in)))
            if len(batch) >= 32 or (batch and si == len(specs) - 1):
                run_chains(batch)
                batch = []
        for wi, b in enumerate(c04.word_sweep(name, specs, ml, seed, 2)):
            probe(b, light=wi % 16 != 0)
        rr = random.Random(seed * 101 + k)
        for _ in range(nrandom):
            probe(bytes(rr.getrandbits(8) for _ in range(rr.randrange(0, ml + 4))))
    res["mnemonics"] = len(res["mnemonics"])
    return res


def check(run):
    quick = run.tier == "quick"
    run.cov["rule"] = ("for every live specification of every cpu module/mode: its fixed bits with don't-care bits all-zero, all-one and "
                       "pseudo-random (per-spec deterministic stream + a VERIF_SEED share), with tails; plus random byte strings; each "
                       "decoded instruction goes through well-formedness, str, toks, every Formatter of the cpu module, a pickle "
                       "round-trip and semantics on a fresh mapper; distinct by (isa, bytes); non-trivial when a setup function is reached "
                       "(an instruction is decoded or a stage raises)")
    run.static_part()
    cpus, failed = isa.load_all()
    for nm, why in sorted(failed.items()):
        run.violation("%s|import|%s" % (nm, why.split(":")[0]), "cpu module %s does not import: %s" % (nm, why), {"module": nm, "error": why})
    import multiprocessing as mp
    tasks = []
    for name, cpu in sorted(cpus.items()):
        dis = cpu.disassemble
        for k in range(len(dis.specs)):
            tasks.append((name, k, run.seed, 4 if quick else 60, 150))
    with mp.get_context("fork").Pool(14) as pool:
        results = pool.map(worker, tasks, chunksize=1)
    nf = 0
    for r in results:
        run.cov["evaluations"] += r["n"]
        run.hist("decoded_by_isa", "%s_m%d" % (r["name"], r["mode"]), r["decoded"])
        run.hist("mnemonics_reached_by_isa", "%s_m%d" % (r["name"], r["mode"]), r["mnemonics"])
        run._distinct.update(("%s%d%d" % (r["name"], r["mode"], j)).encode() for j in range(r["decoded"]))
        for s in r["samples"]:
            run.sample(s, 8)
        for key, v in sorted(r["finds"].items()):
            nf += 1
            run.violation(key, "%s: %s stage raises/malformed at %s" % (v["isa"], v["stage"], key.split("|")[2]), v)
    run.cov["crash_sites_seen"] = nf
    run.cov["trusted_base"] += ["harness/c17.py enumeration (hypothesis 'setup/format/semantics functions are total' is tested, not proved)"]
    run.assumptions += ["the theorem covers the dispatch skeleton only; totality of the hand-written setup, formatting and semantics functions is "
                        "enumerated per specification, and every known crash site is listed in known_findings.json"]
    return run


def replay(path):
    obj = json.load(open(path))["replay"]
    cpus, failed = isa.load_all()
    if "module" in obj:
        print(failed.get(obj["module"], "imports fine"))
        return 1 if obj["module"] in failed else 0
    import amoco.arch.core as core
    from amoco.cas.mapper import mapper
    cpu = cpus[obj["isa"]]
    dis = cpu.disassemble
    b = bytes.fromhex(obj["bytes"])
    with isa.ModeCtx(dis, obj["mode"]):
        isa.reset_pending(dis)
        try:
            i = dis(b)
            print("decoded:", i)
            if i is not None:
                print(str(i), i.toks())
                for n, v in sorted(vars(cpu).items()):
                    if isinstance(v, core.Formatter):
                        v(i)
                pickle.loads(pickle.dumps(i))
                i(mapper())
                if obj.get("executed_before_on_the_same_map"):
                    m = mapper()
                    for h in obj["executed_before_on_the_same_map"]:
                        dis(bytes.fromhex(h))(m)
                    i(m)
        except Exception as e:
            traceback.print_exc()
            return 1
    return 0
