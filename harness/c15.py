# C15 — a loaded program's memory image equals the file's mapping.
# Static: coq/Properties/C15.v (page arithmetic of Elf.loadsegment, write loop of the loaders: every byte of every load
# segment is the file byte mapped there, bss reads zero, fetch returns file bytes; PE / Mach-O / record loaders).
# Tie: Elf.loadsegment and whole loaded images (all ELF loaders, page sizes 2^8..2^16, unaligned / adjacent / page-sharing
# segments) against the model (vm_compute) and against an independent segment-table reader; PE, Mach-O, HEX, SREC and raw
# inputs through load_program; shipped samples with relocation slots as the only allowed deviations.
import glob
import io
import json
import os
import random
import struct

import common
import isa
import elfgen as EG
import fmtgen as FG
import c14
from common import zlit, clist

LEVEL = "proof"
SAMPLES = c14.SAMPLES
# e_machine -> (class, byte order or None for both, code bytes repeated in the first segment, thumb bit allowed)
MACH = {3: (32, "<", bytes.fromhex("5589e5905d"), False), 62: (64, "<", bytes.fromhex("554889e5905d"), False),
        40: (32, "<", bytes.fromhex("0000a0e1"), True), 2: (32, ">", bytes.fromhex("01000000"), False),
        243: (32, "<", bytes.fromhex("13000000"), False), 42: (32, "<", bytes.fromhex("0900"), False),
        8: (32, None, bytes.fromhex("00000000"), False), 183: (64, "<", bytes.fromhex("1f2003d5"), False)}


def membytes(task, a, n):
    """n observations from address a: int (byte), None (unmapped), or ('exp', text) for a symbolic slot"""
    mm = task.state.mmap
    out = []
    try:
        parts = mm.read(a, n)
        for p in parts:
            if isinstance(p, bytes):
                out.extend(p)
            else:
                out.extend([("exp", str(p))] * (p.length if hasattr(p, "length") else p.size // 8))
        if len(out) == n:
            return out
    except MemoryError:
        pass
    out = []
    for i in range(n):
        try:
            p = mm.read(a + i, 1)
            out.append(p[0][0] if isinstance(p[0], bytes) else ("exp", str(p[0])))
        except MemoryError:
            out.append(None)
    return out


def load_bytes(img, cpu=None):
    from amoco.system.core import load_program
    return load_program(img, cpu) if cpu is not None else load_program(img)


def pc_value(task):
    pc = task.state[task.cpu.PC()]
    return pc.value if getattr(pc, "_is_cst", False) else str(pc)


def elf_image_findings(s, task, conf_page, rng, fetch=True):
    """synthesised image vs loaded task; [(key, detail)]"""
    out = []
    mach = s.ehdr["e_machine"]
    thumb = MACH.get(mach, (0, 0, b"", False))[3]
    pc = pc_value(task)
    want_pc = s.ehdr["e_entry"] & ~1 if thumb else s.ehdr["e_entry"]
    if pc != want_pc:
        out.append(("elf|pc|%d" % mach, "program counter %r after loading, e_entry is %#x" % (pc, s.ehdr["e_entry"])))
    for sg in s.segs:
        if not sg["memsz"] and not sg["filesz"]:
            continue
        n = max(sg["memsz"], sg["filesz"])
        got = membytes(task, sg["vaddr"], n)
        want = list(sg["data"]) + [0] * (n - sg["filesz"])
        if got != want:
            k = next(i for i in range(n) if got[i] != want[i])
            part = "file-backed" if k < sg["filesz"] else "bss"
            out.append(("elf|image|" + part, "byte at %#x (+%d of segment, filesz %d memsz %d, page %#x): memory has %r, file maps %r" % (
                sg["vaddr"] + k, k, sg["filesz"], sg["memsz"], conf_page, got[k], want[k])))
    if fetch and s.code and not out and want_pc >= s.segs[0]["vaddr"]:
        a = want_pc
        try:
            i = task.read_instruction(a)
        except Exception as x:
            out.append(("elf|fetch|raised", "read_instruction(%#x) raised %r" % (a, x)))
            return out
        s0 = s.segs[0]
        if i is None or not hasattr(i, "bytes"):
            out.append(("elf|fetch|none", "read_instruction(%#x) returned %r for bytes %s" % (a, i, s0["data"][a - s0["vaddr"]:a - s0["vaddr"] + 8].hex())))
        else:
            w = s0["data"][a - s0["vaddr"]:a - s0["vaddr"] + len(i.bytes)]
            if bytes(i.bytes) != w:
                out.append(("elf|fetch|bytes", "instruction fetched at %#x has bytes %s, the file places %s there" % (a, bytes(i.bytes).hex(), w.hex())))
    return out


def seg_lit(sg):
    return "{| s_off := %d; s_vaddr := %d; s_filesz := %d; s_memsz := %d |}" % (sg["offset"], sg["vaddr"], sg["filesz"], sg["memsz"])


def obs_lit(o):
    return "[" + ";".join("None" if x is None else "Some %d" % x for x in o) + "]"


def elf_part(run, quick):
    from amoco.config import conf
    from amoco.system import elf
    rng = random.Random(run.seed * 6151 + 15)
    ls_rows, img_rows, img_meta = [], [], []
    n_img = 420 if quick else 9000
    n_coq = 90 if quick else 700
    for n in range(n_img):
        mach = rng.choice(list(MACH))
        cls, order, code, thumb = MACH[mach]
        small = n < n_coq
        conf_page = rng.choice([0x100, 0x400] if small else [0x100, 0x1000, 0x1000, 0x4000, 0x10000, 0x200, 0x2000])
        share = rng.random() < 0.4
        incongruent = (not share) and rng.random() < 0.4
        s = EG.Synth(rng, cls=cls, order=order or rng.choice("<>"), machine=mach, page=conf_page, share=share, code=code, incongruent=incongruent,
                     nseg=rng.randrange(1, 3) if small else None,
                     lead=0 if small or rng.random() < 0.4 else rng.randrange(0, 2 * conf_page))
        img = s.image
        run.count(("elf", img, conf_page), nontrivial=len(s.segs) >= 2 or any(g["memsz"] > g["filesz"] for g in s.segs))
        run.hist("elf_machine", str(mach))
        run.hist("page", hex(conf_page))
        run.hist("layout", "share" if share else "page-disjoint-incongruent" if incongruent else "page-disjoint")
        conf.System.pagesize = conf_page
        try:
            task = load_bytes(img)
        except Exception as x:
            run.violation("elf|load-raised|" + type(x).__name__, "load_program raised %r (%s)" % (x, s.describe()),
                          {"format": "elf", "image": img.hex(), "page": conf_page})
            continue
        finally:
            conf.System.pagesize = 4096
        if task is None:
            run.violation("elf|no-task|%d" % mach, "load_program returned no task for a loadable image (machine %d, page %#x, %s)" % (mach, conf_page, s.describe()),
                          {"format": "elf", "image": img.hex(), "page": conf_page})
            continue
        f = elf_image_findings(s, task, conf_page, rng)
        for key, detail in f[:3]:
            run.violation(key, detail + " [%s]" % s.describe(), {"format": "elf", "image": img.hex(), "page": conf_page})
        if run.cov["evaluations"] <= 2:
            run.sample({"format": "elf", "describe": s.describe(), "page": conf_page, "segments": [(hex(g["vaddr"]), g["filesz"], g["memsz"]) for g in s.segs]}, 4)
        if small and not f and len(img) < 2600:
            # model correspondence: loadsegment per segment, and byte reads of the final image
            for P, sg in zip([p for p in task.bin.Phdr if p.p_type == 1], s.segs):
                ms = task.bin.loadsegment(P, conf_page)
                (base, data), = ms.items()
                if len(data) <= 3000:
                    ls_rows.append("(%d, %s, %s, (%d, %s))" % (conf_page, c14.blist(img), seg_lit(sg), base, c14.blist(data)))
            reads = []
            for sg in s.segs:
                for a in (sg["vaddr"] - 3, sg["vaddr"] + sg["filesz"] - 2, sg["vaddr"] + max(sg["memsz"], sg["filesz"]) - 2,
                          (sg["vaddr"] & ~(conf_page - 1)) - 2, sg["vaddr"] + rng.randrange(0, max(1, sg["memsz"]))):
                    if a < 0:
                        continue
                    o = membytes(task, a, 6)
                    if all(x is None or isinstance(x, int) for x in o):
                        reads.append("(%d, %s)" % (a, obs_lit(o)))
            img_rows.append("(%d, %s, %s, %s)" % (conf_page, c14.blist(img), clist([seg_lit(g) for g in s.segs]), clist(reads)))
            img_meta.append((img, conf_page))
    return ls_rows, img_rows, img_meta


def pe_imports_slots(b, R):
    """addresses (RVA) of import address table slots, read from the import directory"""
    def off(rva):
        for s in R["sections"]:
            if s["RVA"] <= rva < s["RVA"] + max(s["VirtualSize"], s["SizeOfRawData"]):
                return s["PointerToRawData"] + rva - s["RVA"]
        return None
    slots = set()
    if len(R["dirs"]) > 1 and R["dirs"][1][0]:
        o = off(R["dirs"][1][0])
        plus = R["opt"]["Magic"] == 0x20B
        w = 8 if plus else 4
        while o is not None and o + 20 <= len(b):
            ilt, _, _, name, iat = struct.unpack_from("<IIIII", b, o)
            if not (ilt or name or iat):
                break
            t = off(ilt or iat)
            k = 0
            while t is not None and t + w <= len(b) and int.from_bytes(b[t:t + w], "little"):
                slots.add(iat + k * w)
                t += w
                k += 1
            o += 20
    return slots, (8 if R["opt"]["Magic"] == 0x20B else 4)


def pe_part(run, quick):
    from amoco.system import pe
    rng = random.Random(run.seed * 7001 + 15)
    rows = []
    for n in range(120 if quick else 2500):
        plus = rng.random() < 0.5
        s = FG.SynthPE(rng, plus=plus)
        if not plus:
            # the win32 loader is registered for i386 only
            img = bytearray(s.image)
            struct.pack_into("<H", img, s.e_lfanew + 4, 0x14C)
            img = bytes(img)
        else:
            img = s.image
        # keep the simulated stack small
        R = FG.read_pe(img)
        run.count(("pe", img), nontrivial=len(s.sections) >= 2)
        run.hist("pe", "PE32+" if plus else "PE32")
        try:
            task = load_bytes(img)
        except Exception as x:
            run.violation("pe|load-raised|" + type(x).__name__, "load_program raised %r (%s)" % (x, s.describe()), {"format": "pe", "image": img.hex()})
            continue
        if task is None:
            run.violation("pe|no-task", "load_program returned no task for a loadable PE image (%s)" % (s.describe(),), {"format": "pe", "image": img.hex()})
            continue
        base = R["opt"]["ImageBase"]
        f = []
        pc = pc_value(task)
        if pc != base + R["opt"]["AddressOfEntryPoint"]:
            f.append(("pe|pc", "program counter %r, entry point is %#x" % (pc, base + R["opt"]["AddressOfEntryPoint"])))
        reads = []
        for sc in R["sections"]:
            nbytes = max(sc["VirtualSize"], sc["SizeOfRawData"])
            got = membytes(task, base + sc["RVA"], nbytes)
            raw = img[sc["PointerToRawData"]:sc["PointerToRawData"] + sc["SizeOfRawData"]]
            want = list(raw) + [0] * (nbytes - len(raw))
            if got != want:
                k = next(i for i in range(nbytes) if got[i] != want[i])
                part = "raw" if k < len(raw) else "zero-tail"
                f.append(("pe|image|" + part, "byte +%d of section at RVA %#x (raw %d, virtual %d): memory has %r, file maps %r" % (
                    k, sc["RVA"], sc["SizeOfRawData"], sc["VirtualSize"], got[k], want[k])))
            elif len(img) < 9000:
                for a in (base + sc["RVA"] + sc["SizeOfRawData"] - 3, base + sc["RVA"] + rng.randrange(0, nbytes)):
                    o = membytes(task, a, 6)
                    if all(isinstance(x, int) or x is None for x in o):
                        reads.append("(%d, %s)" % (a, obs_lit(o)))
        for key, detail in f[:3]:
            run.violation(key, detail + " [%s]" % (s.describe(),), {"format": "pe", "image": img.hex()})
        if not f and reads and len(img) < 9000 and len(rows) < (40 if quick else 300):
            secs = clist(["{| p_rva := %d; p_vsize := %d; p_rawptr := %d; p_rawsize := %d |}" % (c["RVA"], c["VirtualSize"], c["PointerToRawData"], c["SizeOfRawData"])
                          for c in R["sections"]])
            rows.append("(%d, %d, %s, %s, %s)" % (base, R["opt"]["SectionAlignment"], c14.blist(img), secs, clist(reads)))
    return rows


def macho_part(run, quick):
    rng = random.Random(run.seed * 7013 + 15)
    for n in range(120 if quick else 2500):
        s = FG.SynthMachO(rng, is64=True)
        img = s.image
        R = FG.read_macho(img)
        run.count(("macho", img), nontrivial=len(s.segs) >= 2)
        try:
            task = load_bytes(img)
        except Exception as x:
            run.violation("macho|load-raised|" + type(x).__name__, "load_program raised %r (%s)" % (x, s.describe()), {"format": "macho", "image": img.hex()})
            continue
        if task is None:
            run.violation("macho|no-task", "load_program returned no task for a loadable Mach-O image (%s)" % (s.describe(),), {"format": "macho", "image": img.hex()})
            continue
        f = []
        pc = pc_value(task)
        if pc != R["entry"]:
            f.append(("macho|pc", "program counter %r, the file's entry is %#x" % (pc, R["entry"])))
        for sg in R["segments"]:
            if sg["segname"].startswith(b"__PAGEZERO"):
                continue
            nbytes = max(sg["vmsize"], sg["filesize"])
            got = membytes(task, sg["vmaddr"], nbytes)
            raw = img[sg["fileoffset"]:sg["fileoffset"] + sg["filesize"]]
            want = list(raw) + [0] * (nbytes - len(raw))
            if got != want:
                k = next(i for i in range(nbytes) if got[i] != want[i])
                f.append(("macho|image|" + ("file-backed" if k < len(raw) else "zero-fill"),
                          "byte +%d of segment %r: memory has %r, file maps %r" % (k, sg["segname"].rstrip(b"\0"), got[k], want[k])))
        for key, detail in f[:3]:
            run.violation(key, detail + " [%s]" % (s.describe(),), {"format": "macho", "image": img.hex()})


def records_part(run, quick):
    """HEX / SREC / raw inputs through the raw loader"""
    import amoco.arch.x86.cpu_x86 as cpu
    rng = random.Random(run.seed * 7019 + 15)
    for n in range(360 if quick else 6000):
        kind = rng.choice(["hex", "hex", "srec", "raw"])
        if kind == "hex":
            txt, recs, entry, lines = FG.gen_hex(rng)
            if isinstance(entry, tuple):
                entry = None        # CS:IP start records are not an address of the flat image
        elif kind == "srec":
            txt, recs, entry, lines = FG.gen_srec(rng)
        else:
            txt = bytes([0x90]) + rng.randbytes(rng.randrange(1, 200))
            if txt[:1] in (b":", b"S", b"M", b"\x7f"):
                txt = b"\x90" + txt
            recs, entry = [(0, txt)], 0
        run.count((kind, txt), nontrivial=len(recs) >= 2)
        run.hist("records", kind)
        try:
            task = load_bytes(txt, cpu)
        except Exception as x:
            run.violation(kind + "|load-raised|" + type(x).__name__, "load_program raised %r on a valid %s input" % (x, kind), {"format": kind, "text": txt.hex()})
            continue
        if task is None:
            run.violation(kind + "|no-task", "no task for a valid %s input" % kind, {"format": kind, "text": txt.hex()})
            continue
        want = {}
        for a, d in recs:
            for i, b in enumerate(d):
                want[a + i] = b
        f = []
        for a, d in recs:
            got = membytes(task, a, len(d))
            w = [want[a + i] for i in range(len(d))]
            if got != w:
                k = next(i for i in range(len(d)) if got[i] != w[i])
                f.append((kind + "|image", "byte at %#x: memory has %r, the records define %r" % (a + k, got[k], w[k])))
                break
        pc = pc_value(task)
        if entry is not None and pc != entry:
            f.append((kind + "|pc", "program counter %r, the start record says %#x" % (pc, entry)))
        if not f and recs and hasattr(task, "relocate") and rng.random() < 0.6:
            # relocation of the raw image (once, sometimes twice): its lowest byte moves to the requested address, every
            # byte keeps its distance to it, and the program counter is the new base
            base = min(a for a, d in recs)
            targets = [rng.choice([0x1000, 0x20000, 0x400000, 0x10, 0]) + 16 * rng.randrange(0, 64) for _ in range(rng.choice([1, 2]))]
            try:
                for vaddr in targets:
                    task.relocate(vaddr)
            except Exception as x:
                f.append((kind + "|relocate-raised|" + type(x).__name__, "relocate%s raised %r" % (targets, x)))
            else:
                vaddr = targets[-1]
                for a, d in recs:
                    got = membytes(task, a - base + vaddr, len(d))
                    w = [want[a + i] for i in range(len(d))]
                    if got != w:
                        k = next(i for i in range(len(d)) if got[i] != w[i])
                        f.append((kind + "|relocated-image", "after relocate%s (image base was %#x): byte at %#x: memory has %r, the image holds %r there" % (
                            [hex(t) for t in targets], base, a - base + vaddr + k, got[k], w[k])))
                        break
                if pc_value(task) != vaddr:
                    f.append((kind + "|relocated-pc", "after relocate%s the program counter is %r" % ([hex(t) for t in targets], pc_value(task))))
        for key, detail in f[:2]:
            run.violation(key, detail, {"format": kind, "text": txt.hex()})


def sample_part(run, quick):
    from amoco.system.core import load_program
    n = 0
    for f in sorted(glob.glob(SAMPLES + "/*/*") + glob.glob(SAMPLES + "/*/*/*.mach-o") + glob.glob(SAMPLES + "/*/*/*/*.mach-o")):
        if not os.path.isfile(f):
            continue
        b = open(f, "rb").read()
        if b[:4] == b"\x7fELF":
            R = EG.read_elf(b)
            if not any(p["p_type"] == 1 for p in R["phdr"]):
                continue
            try:
                task = load_program(f)
            except Exception as x:
                run.violation("elf|sample-load-raised|" + type(x).__name__, "load_program(%s) raised %r" % (os.path.basename(f), x), {"file": f})
                continue
            if task is None:
                run.cov.setdefault("samples_without_loader", []).append(os.path.basename(f))
                continue
            n += 1
            run.count(("sample", f), nontrivial=True)
            F = EG.fmts(R["class"], R["order"])
            ptr = R["class"] // 8
            slots = set()
            for s in R["shdr"]:
                if s["sh_type"] in (EG.SHT_REL, EG.SHT_RELA) and s["sh_entsize"]:
                    for i in range(s["sh_size"] // s["sh_entsize"]):
                        r_off = struct.unpack_from(R["order"] + ("Q" if ptr == 8 else "I"), b, s["sh_offset"] + i * s["sh_entsize"])[0]
                        slots.update(range(r_off, r_off + ptr))
            pc = pc_value(task)
            if pc != R["ehdr"]["e_entry"] and pc != R["ehdr"]["e_entry"] & ~1:
                run.violation("elf|sample-pc", "%s: program counter %r, e_entry %#x" % (os.path.basename(f), pc, R["ehdr"]["e_entry"]), {"file": f})
            for p in R["phdr"]:
                if p["p_type"] != 1:
                    continue
                nb = max(p["p_memsz"], p["p_filesz"])
                got = membytes(task, p["p_vaddr"], nb)
                want = list(b[p["p_offset"]:p["p_offset"] + p["p_filesz"]]) + [0] * (nb - p["p_filesz"])
                for k in range(nb):
                    if got[k] != want[k] and not (isinstance(got[k], tuple) and (p["p_vaddr"] + k) in slots):
                        run.violation("elf|sample-image", "%s: byte at %#x is %r in memory, the file maps %r (not a relocation slot)" % (
                            os.path.basename(f), p["p_vaddr"] + k, got[k], want[k]), {"file": f})
                        break
            # fetch at the entry point decodes the bytes of the file
            a = R["ehdr"]["e_entry"] & ~1
            o = EG.ref_offset(R, a)
            try:
                i = task.read_instruction(a)
            except Exception as x:
                i = None
            if i is not None and hasattr(i, "bytes") and o is not None and bytes(i.bytes) != b[o:o + len(i.bytes)]:
                run.violation("elf|sample-fetch", "%s: instruction at entry has bytes %s, file has %s" % (os.path.basename(f), bytes(i.bytes).hex(), b[o:o + len(i.bytes)].hex()), {"file": f})
        elif b[:2] == b"MZ":
            try:
                R = FG.read_pe(b)
            except Exception:
                continue
            if not R["sections"]:
                continue
            try:
                task = load_program(f)
            except Exception as x:
                run.violation("pe|sample-load-raised|" + type(x).__name__, "load_program(%s) raised %r" % (os.path.basename(f), x), {"file": f})
                continue
            if task is None:
                continue
            n += 1
            run.count(("sample", f), nontrivial=True)
            base = R["opt"]["ImageBase"]
            slots, w = pe_imports_slots(b, R)
            allowed = set()
            for s0 in slots:
                allowed.update(range(base + s0, base + s0 + w))
            for sc in R["sections"]:
                nb = max(sc["VirtualSize"], sc["SizeOfRawData"])
                got = membytes(task, base + sc["RVA"], nb)
                raw = b[sc["PointerToRawData"]:sc["PointerToRawData"] + sc["SizeOfRawData"]]
                want = list(raw) + [0] * (nb - len(raw))
                for k in range(nb):
                    if got[k] != want[k] and not (isinstance(got[k], tuple) and (base + sc["RVA"] + k) in allowed):
                        run.violation("pe|sample-image", "%s: byte at %#x is %r in memory, the file maps %r (not an import slot)" % (
                            os.path.basename(f), base + sc["RVA"] + k, got[k], want[k]), {"file": f})
                        break
        elif b[:4] in (b"\xcf\xfa\xed\xfe", b"\xce\xfa\xed\xfe"):
            R = FG.read_macho(b)
            try:
                task = load_program(f)
            except Exception as x:
                run.violation("macho|sample-load-raised|" + type(x).__name__, "load_program(%s) raised %r" % (os.path.basename(f), x), {"file": f})
                continue
            if task is None:
                continue
            n += 1
            run.count(("sample", f), nontrivial=True)
            allowed = set()
            for sg in R["segments"]:
                for c in sg["sections"]:
                    if (c["flags"] & 0xFF) in (6, 7):
                        allowed.update(range(c["addr"], c["addr"] + c["size_"]))
            for sg in R["segments"]:
                if sg["segname"].startswith(b"__PAGEZERO"):
                    continue
                nb = max(sg["vmsize"], sg["filesize"])
                got = membytes(task, sg["vmaddr"], nb)
                raw = b[sg["fileoffset"]:sg["fileoffset"] + sg["filesize"]]
                want = list(raw) + [0] * (nb - len(raw))
                for k in range(nb):
                    if got[k] != want[k] and not (isinstance(got[k], tuple) and (sg["vmaddr"] + k) in allowed):
                        run.violation("macho|sample-image", "%s: byte at %#x is %r in memory, the file maps %r (not a symbol pointer slot)" % (
                            os.path.basename(f), sg["vmaddr"] + k, got[k], want[k]), {"file": f})
                        break
    run.cov["samples_loaded"] = n


def check(run):
    quick = run.tier == "quick"
    isa.load_all()
    run.cov["rule"] = ("synthesised ELF images for every machine with a registered loader (x86, x64, ARM, SPARC, RISC-V, SH, MIPS be/le, AArch64), "
                       "1-4 load segments with bss, page-disjoint or page-sharing (same offset-address delta) layouts, configured page sizes "
                       "2^8..2^16; synthesised PE32/PE32+ and 64-bit Mach-O images; HEX / SREC / raw inputs through the raw loader; the "
                       "shipped samples; distinct by (file bytes, page size); non-trivial when >= 2 segments/records or a bss part")
    run.static_part()
    ls_rows, img_rows, img_meta = elf_part(run, quick)
    pe_rows = pe_part(run, quick)
    macho_part(run, quick)
    records_part(run, quick)
    sample_part(run, quick)
    hdr = "From Coq Require Import ZArith List.\nImport ListNotations.\nRequire Import Amoco.C15.Model.\nOpen Scope Z_scope.\n"
    texts = []

    def shard(name, rows, typ, fn, size):
        for i in range(0, len(rows), size):
            texts.append(("%s_%03d" % (name, i // size), hdr + "Definition cases : list (%s) := [\n%s\n].\nEval vm_compute in (bad_from %s 0 cases).\n" % (
                typ, ";\n".join(rows[i:i + size]), fn), name, i))
    shard("loadseg", ls_rows, "Z * list Z * seg * (Z * list Z)", "check_loadsegment", 12)
    shard("image", img_rows, "Z * list Z * list seg * list (Z * list (option Z))", "check_image", 12)
    shard("peimage", pe_rows, "Z * Z * list Z * list sect * list (Z * list (option Z))", "check_pe_image", 6)
    res = common.coq_eval_many(run.work / "cases", [(n, t) for n, t, _, _ in texts])
    ok = 0
    for n, t, kind, base in texts:
        rc, out = res[n]
        lists = common.parse_nat_list(out)
        if rc != 0 or len(lists) != 1:
            run.violation("model-eval|" + kind, "%s model evaluation failed" % kind, {"theorem_or_correspondence": "Amoco.C15.Model check (%s)" % n, "output": out[-800:]},
                          found_input=False)
            continue
        ok += t.count(";\n(") + 1
        for k in lists[0][:2]:
            rep = {"theorem_or_correspondence": "Amoco.C15.Model.check_" + kind, "case_index": base + k}
            if kind == "image":
                rep.update(format="elf", image=img_meta[base + k][0].hex(), page=img_meta[base + k][1])
            run.violation(kind + "|model-impl-correspondence", "the loaded image / loadsegment result differs from the model's", rep, found_input=(kind == "image"))
    run.cov["model_cases"] = ok
    run.cov["traces_validated_against_impl"] = run.cov.get("traces_validated_against_impl", 0) + ok
    run.cov["trusted_base"] += ["harness/elfgen.py, harness/fmtgen.py (synthesisers, independent segment-table readers)",
                                "abstract byte-map memory in the model: MemoryMap write/read of concrete bytes refines it (C08)"]
    run.assumptions += ["initial register values other than the program counter, the simulated stack and the OS stubs are not part of the property",
                        "images whose segments are not congruent to their file offsets modulo the configured page size are outside the loaders' domain"]
    return run


def replay(path):
    obj = json.load(open(path))["replay"]
    isa.load_all()
    from amoco.config import conf
    fmt = obj.get("format")
    if fmt == "elf" and obj.get("image"):
        img = bytes.fromhex(obj["image"])
        conf.System.pagesize = obj.get("page", 4096)
        t = load_bytes(img)
        R = EG.read_elf(img)
        bad = 0
        for p in R["phdr"]:
            if p["p_type"] == 1 and t is not None:
                nb = max(p["p_memsz"], p["p_filesz"])
                got = membytes(t, p["p_vaddr"], nb)
                want = list(img[p["p_offset"]:p["p_offset"] + p["p_filesz"]]) + [0] * (nb - p["p_filesz"])
                if got != want:
                    bad += 1
                    print("segment at %#x differs" % p["p_vaddr"])
        print("task", t, "pc", t and pc_value(t), "entry", hex(R["ehdr"]["e_entry"]))
        return 1 if bad or t is None else 0
    print(obj)
    return 1
