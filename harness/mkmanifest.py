# Regenerates MANIFEST.json from the table below (kept here so the manifest stays valid and consistent).
import json, os
HERE = os.path.dirname(os.path.dirname(os.path.abspath(__file__)))
CLAIMS = {
 "C06": dict(
   category="proof",
   text="A reference interpreter for RV32I and RV64I written in Gallina from the unprivileged ISA manual (all base instruction formats, immediates, loads/stores, branches, *W forms), with theorems about it (sign extension ranges, branch offsets, ADD/SUB inverse, SLT/SLTU are the signed/unsigned orders, x0 never written, load-after-store), and Coq proofs that the carry and overflow formulas of cas/utils.py AddWithCarry / SubWithBorrow are the architectural unsigned carry/borrow and signed overflow for every width. Tie: every RISC-V base instruction form on boundary register/pc/memory states: amoco's mapper state after instruction(mapper) vs the Coq interpreter (vm_compute) and its Python mirror; the live flag helpers vs the Coq formulas; for x86-64, generated encodings (8/16/32/64-bit operands, REX/66/67 prefixes, register and memory forms, immediates) are executed natively on the host CPU by a small trampoline (native/x86run.c) and compared with amoco on registers, memory bytes and the architecturally defined flags. Sixteen genuine defects repaired, three known findings (missing semantics).",
   design_ref="DESIGN.md §4 C06",
   note="Partial for x86: the instruction semantics themselves are not modelled in Coq (only the shared flag formulas); native execution is the oracle. Subset and exclusions are listed in the evidence assumptions.",
   technique="Gallina reference interpreter + Coq proofs of flag formulas + model correspondence + differential testing against native execution"),
 "C07": dict(
   category="proof",
   text="Coq theorems for the part of an x86 instruction's length that the decoder computes: the ModRM / SIB / displacement tail table of the Intel SDM is bounded (<= 2 bytes with 16-bit addressing, <= 5 otherwise), SIB-local (only rm=100 looks at the SIB byte, and only at its base field) and empty for register forms - for every byte value (finite domain, proved by reflection over all 65 536 ModRM x SIB pairs). Tie: getModRM's consumed bytes vs the table for all ModRM x SIB bytes and addressing sizes in both modes (19 384 cases by vm_compute). Whole instructions: byte strings (random, and from every shipped x86/x64 specification behind random prefixes/REX with random ModRM/SIB/displacement/immediate) which GNU objdump and LLVM both decode as a valid instruction of the same length - a vendored table of 28k entries plus live generation when the tools are installed - compared with amoco's length and relative-branch displacement.",
   design_ref="DESIGN.md Part I §I.3 C07",
   note="Partial: opcode-to-length for the ~1500 specifications is data compared differentially, not proved; only the first instruction of each string is compared.",
   technique="Coq proof by reflection of the ModRM tail table + exhaustive model correspondence + differential testing against objdump and LLVM"),
 "C08": dict(
   category="proof",
   text="Refinement proof in Coq: the zone algorithms (locate/addtomap/mo.write/setpart/mergeparts/read/restruct/shift/merge) of a Gallina model mirroring system/memory.py refine a last-write-wins byte map for every write history (induction, no bound). The model is tied to /repo on every run by running identical histories on the real MemoryMap and on the model (vm_compute in coqc), comparing per-byte read results and part structure; an independent dict oracle searches for failing inputs.",
   design_ref="DESIGN.md §4 C08",
   note="Trusted: Coq kernel; hand-written model coq/C08/Model.v; correspondence harness harness/c08.py (generators, part walker); exp.bytes()/cst.to_bytes exercised through the implementation only.",
   technique="Coq refinement proof + model/implementation correspondence on generated histories"),
 "C04": dict(
   category="proof",
   text="Coq theorems: any decoder tree satisfying the routing invariant (tree_ok) selects, for every byte string of any length, both fetch endiannesses (incl. left-justified short specs), every setup-function behaviour and through prefix recursion, exactly the spec chosen by the most-constrained-first linear scan. Regeneration tie: on every run the live tree and weight-sorted spec list of every importable cpu module/mode are dumped from /repo and tree_ok is re-evaluated on them by the Coq kernel (one generated obligation per tree); disassemble(b) is compared with a reference scan on random, spec-derived, truncated, neighbouring and prefixed inputs (search oracle).",
   design_ref="DESIGN.md §4 C04",
   note="Trusted: Coq kernel incl. vm_compute; harness/c04.py dumper (live objects -> Gallina literals); ispec.decode used as accept predicate on both sides (its meaning is C03). setup() itself is not modelled: its output is validated per run.",
   technique="Coq proof of invariant=>equivalence + per-run kernel re-check of regenerated live trees + differential scan"),
 "C03": dict(
   category="proof",
   text="Coq theorems about a Gallina model of ispec.buildspec/decode: positions assigned by the loop equal the documented MSB-first ('<', incl. '=' overlaps and a leading (*)) or LSB-first ('>') reading of the format for every well-formed directive list; mask/fix are characterised bit by bit (mask bit set iff a fixed bit/byte owns it, fix carries its value, fix within mask); decode accepts exactly the long-enough inputs whose fixed bits match, and every delivered integer/bit-vector consists of bits [sta,sto) of the fetched word whose bit k is bit k mod 8 of byte k/8. Regeneration tie: every live ispec (5137 on the pinned tree) is dumped each run and the kernel re-checks buildspec(ast)=live (size, mask, fix, extractor closures) and the well-formedness hypothesis. Search oracle: an independent bit-level interpreter of the documented meaning vs real ispec(...) with a recording hook on all live and synthetic formats x words x both endiannesses; model decode cross-checked by vm_compute.",
   design_ref="DESIGN.md §4 C03",
   note="Trusted: Coq kernel incl. vm_compute; harness/c03.py format tokenizer (pyparsing not modelled) and live-object dumper; crysp.bits exercised through the implementation.",
   technique="Coq proofs over a buildspec/decode model + per-run kernel re-check of all live specs + independent-interpreter differential testing"),
 "C05": dict(
   category="proof",
   text="Coq theorems over a Gallina model of disassembler.__call__/ispec.decode (Amoco.Dec.Disasm, abstract setup functions): the returned bytes are a non-empty prefix of the input for every tree, setup behaviour and prefix depth; for fixed-length instruction sets the outcome depends only on the maxlen fetch window (hence not on what follows). Hypotheses on the live tables (tree_ok, spec size >= 8) are regenerated and kernel-checked per run; the skeleton is tied to the code by trace-driven correspondence (recorded ispec.decode results drive the model). Partial: locality of variable-length setup functions and prefix-freeness of mixed-length tables are tested hypotheses (d(b), d(b[:n]), d(b[:n]+t), d(b[:maxlen]) plus a deterministic sweep of all prefix-ambiguous spec pairs); known reader defects are listed in known_findings.json.",
   design_ref="DESIGN.md §4 C05",
   note="Trusted: Coq kernel; Dec model; harness/decmodel.py decode wrapper; generators. Not modelled: bodies of setup functions.",
   technique="Coq proof over call-skeleton model + regenerated table obligations + trace-driven correspondence + prefix/tail oracle"),
 "C10": dict(
   category="proof",
   text="Coq theorems over the store model of shared expression nodes (C13/Heap, C10/History): whatever nodes a history of decode / execute / evaluate calls appends, a map built afterwards has node by node the values of the same map built first (relocation theorem), results computed earlier keep their values while later work only appends, and a history step that rewrites a base node (a global register's flag) is observable. Tie / search: for every cpu module and mode, in a fresh forked process per case (the parent imports the modules and never decodes), a block is decoded, mapped and evaluated on concrete states first; then a history of other spec-derived instructions is decoded, executed and partly evaluated under a monitor that walks the module-level register objects and decode-mode switches after every step; then the old map is re-evaluated and the block is rebuilt and re-evaluated: all three must agree; the monitor names the first instruction that wrote a global flag (root-cause key). One genuine defect repaired (RISC-V semantics writing sign flags of the shared registers).",
   design_ref="DESIGN.md Part I §I.3 C10",
   note="Partial: the model is structural (any operator semantics); that amoco's semantics functions only append nodes is observed per run, not proved.",
   technique="Coq proofs of history-independence on a store model + fork-per-case before/after differential testing with a global-state monitor"),
 "C11": dict(
   category="proof",
   text="Coq theorems over the call-skeleton model: the pending-prefix slot is empty after every call whatever the setup functions do (accept/reject/raise), hence the outcome of a call is identical after any call history (memoryless), and returned bytes come from the current input only; a refutation witness shows the originally pinned code (no reset on raise) violates this - that defect was confirmed on the real code, repaired by a fix: commit and recorded as fixed. Tie: trace-driven correspondence incl. the pending-slot state after each call; search oracle: outcomes after random call histories (valid/invalid/truncated/prefix-only/long prefix runs/raising/prefix+raising, and suffix-reading '&' specifications called with their code buffer) vs outcomes from the cleared state, list-valued and class-level attributes included; corpus of the minimised historical failures runs first.",
   design_ref="DESIGN.md §4 C11",
   note="Trusted: Coq kernel; Dec model; harness/decmodel.py and c11.py. 'Fresh' = cleared pending slot on the same object; other global state probed by evaluating the pool in two orders.",
   technique="Coq invariant proof over call-skeleton model + history differential testing"),
 "C17": dict(
   category="proof",
   text="Coq theorem: the dispatch skeleton (tree walk, leaf scan, prefix recursion, pending slot) is total - it returns an instruction or none, never raises and never loops - provided setup functions only accept or reject, and what it returns is well formed (built by a table spec whose fixed bits match, positive length, bytes = input prefix). Partial by nature: the hypothesis about ~4700 hand-written setup/format/semantics functions cannot be carried by a Gallina model; it is enumerated per run over every live specification (boundary and pseudo-random field values) through decode, well-formedness, str/toks, every Formatter, pickle round-trip and semantics on a fresh map and on the map left by the instructions of the same and the previous specification (chains run in forked children); every crash site is a keyed known finding (isa|stage|function|exception), anything unlisted is a violation.",
   design_ref="DESIGN.md §4 C17",
   note="Trusted: Coq kernel; Dec model; enumeration harness. The enumeration is testing, not proof.",
   technique="Coq totality proof of dispatch skeleton + exhaustive per-spec enumeration of hook totality with keyed known findings"),
 "C01": dict(
   category="proof",
   text="Coq theorems, all widths: every cst operator (add/sub/mul, and/or/xor, shifts by any amount incl. >= width and sign-flagged counts, eq/neq, unsigned and declared-signedness comparisons, widening multiply, unsigned div/mod, neg/not, slices, extensions) computes the reference fixed-width result (denote/ref_binop written from the property text); and eval_sound: for every well-sized covered tree (any shape) and every valuation, if evaluation yields a constant it is denote's value with the tree's width. Tie on every run: cst model vs cst class exhaustively for widths 1..3 (all sign-flag combinations, 22 operators) + random wide widths; eval model vs implementation (value, width, sign flag) and the implementation's built/simplified trees vs denote inside the Coq kernel; independent Python interpreter over recipes for search and shrinking. The simplifier's rewrite rules are modelled one by one (Amoco.Exp.Rules / Rules2: the 16 rules of eqn1_helpers / eqn2_helpers - negation rules, +/- re-association, constant merging, neutral and absorbing constants, mask->slice, constant shifts->composition or 0, ==bit, x op x, part-wise logic on compositions - plus slice pushing in slc.simplify and constant / equal-branch conditionals in tst.simplify) and each is proved to keep width and meaning for every operand tree, width and valuation (C01_simplifier_rules_sound, C01_slice_and_conditional_rules_sound, chains of rules too); the printed-form 'x op x' rule is proved for identical operands and refuted with a witness for operands that only print alike. Rule tie on every run: ~3 500 raw nodes (widths 1..128, boundary constants, every mask position / shift amount class) go through the real eqn1_helpers / eqn2_helpers / slc.simplify / tst.simplify and through the model; the returned trees are compared structurally by the Coq kernel, together with nodes on which no rule may fire. End to end, implementation result trees are also evaluated by denote. Eleven genuine defects found by this check were repaired (fix: commits), two are listed as known findings.",
   design_ref="DESIGN.md §4 C01",
   note="Trusted: Coq kernel incl. vm_compute; harness/exptree.py (generator, dump walker, Python reference), harness/c01.py tree->Gallina translation. Outside the covered fragment: signed div/mod, rotations >= width, floats, mem/ptr, vec.",
   technique="Coq proofs (cst operators, eval soundness, soundness of every modelled rewrite rule vs reference semantics) + kernel-evaluated correspondence (values, trees, rule by rule) + differential testing with shrinking"),
 "C12": dict(
   category="proof",
   text="Coq theorems: comp slice assignment (parts dict + cut) keeps an exact tiling of [0,size) for every assignment and every assignment sequence; evaluation returns exactly the tree's width; every constant operator returns the dictated width (operand / 1 / double). Tie: slice-assignment sequences on real comp objects vs the parts model (vm_compute, incl. part sources and offsets, smask consistency), widths and tilings of recipes through construction, simplify (plain, bitslice, widening) and eval under concrete, partial and symbolic environments with the complexity threshold off/small, under a memory limit.",
   design_ref="DESIGN.md §4 C12",
   note="Trusted: Coq kernel; harness/exptree.py walker; harness/c12.py. restruct's constant merging is checked by the tiling oracle only.",
   technique="Coq invariant proof of comp tiling + width theorems + differential width/tiling oracle on every rewrite path"),
 "C02": dict(
   category="proof",
   text="Coq theorems (register side): the substitution lemma (instantiating a symbolic map substituted into an expression = evaluating the expression in the state seen through the map) and, by induction over programs of any length, block_map_agrees_with_stepwise_execution: for every assignment program an instruction sequence performs through the mapper API and every concrete state, the map built once and applied to the state gives each register exactly the value of step-by-step execution (reference semantics denote). Tie: random assignment programs through the real mapper on both routes, the Python reference and the Gallina model (vm_compute). Search oracle (the property's own observation): for every cpu module with semantics, every spec-derived instruction alone (deterministic sweep) and a fixed universe of instruction sequences (length 1..8, 4 aliasing/tracing settings, states respecting the no-aliasing scope): symbolic route vs stepwise route on registers and touched memory. Partial: instruction bodies are Python (compared, not proved); memory side rests on C08/C09. ISA-level divergences are keyed known findings; one mapper defect (endianness lost on symbolic big-endian loads) was repaired.",
   design_ref="DESIGN.md §4 C02",
   note="Trusted: Coq kernel; harness/c02.py state construction and two-route driver; exptree walker. The sequence universe is fixed (VERIF_SEED selects a block) so that the known-findings list is complete for it.",
   technique="Coq proof of symbolic-composition = sequential execution over assignment programs + two-route differential execution of decoded instruction sequences"),
 "C09": dict(
   category="proof",
   text="Coq theorems over a byte-level model of the mapper's ordered store map: replaying the map (what a possibly-aliased read's mods and the composed final memory are computed from) equals byte-level sequential execution for EVERY pointer assignment, as long as no pointer key / address is stored twice; under the no-aliasing assumption a zone read equals sequential execution whenever stores through other pointers do not overlap the byte read; a refutation witness shows the guard is forced (same address stored twice with an overlapping store in between) and is replayed on the implementation as a known finding. Tie: ordered-map structure (key order, composed sizes) of real mappers vs the model (vm_compute). Search oracle: load/store programs over 3 pointers x endianness x settings x pointer assignments from a lattice vs a bytearray execution. One defect (aliasing() ignoring earlier stores when the own-key store is narrower than the read) was repaired.",
   design_ref="DESIGN.md §4 C09",
   note="Trusted: Coq kernel; harness/c09.py (program driver, bytearray reference). Values are byte strings in the model; big-endian replay and memtrace-off are known findings.",
   technique="Coq proof of replay = sequential execution under the no-rewrite guard (+ refutation witness) + differential testing against bytearray execution over pointer assignments"),
 "C19": dict(
   category="proof",
   text="Coq theorems over a model of merge()/vec.simplify (flattening, de-duplication, single-alternative collapse, widening, complexity threshold, flags forced to top): for all map pairs, every widening/threshold setting and every location written by either map, the merged value is unknown or lists the value of the first map and the value of the second; locations written by neither are untouched; evaluating the merged alternatives yields candidates containing each original result. Tie: vec([v1,v2]).simplify of real values vs the model's join (vm_compute, threshold off). Search oracle: structural and evaluated membership on pairs of real mappers over registers, flags and memory locations with path conditions, widening and thresholds. One defect (top stored in memory read back as undefined memory) was repaired.",
   design_ref="DESIGN.md §4 C19",
   note="Trusted: Coq kernel; harness/c19.py. mapper.assume (path conditions) and the complexity measure are exercised through the implementation only.",
   technique="Coq proof of join covering both inputs + model/implementation join correspondence + membership oracle"),
 "C13": dict(
   category="proof",
   text="Coq theorems over a heap model of shared expression nodes (store in allocation order, values computed left to right for any valuation and operator semantics): a step that only allocates new nodes leaves the value of every existing node unchanged; an in-place re-shape of one node into a node of the same value leaves every node's value unchanged; a re-shape into a different value is observable at that node. Tie: per run every node reachable from the operands of random operation sequences (operators on either side + simplify with each option, in-place simplify, map write/read/composition, eval in concrete/partial/symbolic environments, slices, comp assignment, tst branches, merge, extensions, comparisons) is walked before and after by an independent walker: widths must not change and re-shaped nodes must evaluate identically under fixed valuations, in the Python reference walker and in the Gallina reference semantics (Amoco.Exp.Sem.denote by vm_compute); pickle round trips of expressions, mappers and memory maps are compared on str, ==, hash, walker fingerprint and evaluation. Two genuine defects (in-place sign-flag writes during evaluation) repaired.",
   design_ref="DESIGN.md §4 C13",
   note="Partial: the heap model is generic (operator semantics abstract); which Python operations allocate and which re-shape is observed, not proved. Nodes with ambiguous reference value (top, memory, mixed signedness) are compared by shape and width only.",
   technique="Coq proofs of heap frame / equivalent-reshape lemmas + object-graph before/after monitor checked against the Gallina reference semantics"),
 "C14": dict(
   category="proof",
   text="Coq theorems over a byte-level model of the parsers: any record of fixed-width fields round-trips in either byte order; a table of any number of records at any offset and stride is read back; for every file holding an encoded ELF header and program/section/symbol tables (both classes, both byte orders, any counts and positions) the parser reports exactly the encoded records in canonical field order; string-table names; address->file-offset queries of Elf/PE/MachO follow the file's mapping; Intel-HEX and S-record lines decode to what they encode and are rejected when the checksum byte is wrong; HEX address composition follows the most recent extended-address record. Tie: regenerated obligations (layouts of the live ELF classes = the model's gABI tables), the model's parser run by vm_compute on the same synthesised ELF files as Elf(), PE/Mach-O queries and HEX/SREC lines model-vs-implementation, and independent struct-based readers (validated against readelf/objdump) vs amoco on synthesised ELF/PE/Mach-O images, the shipped samples and field-level variations. Eleven genuine defects found by this check were repaired.",
   design_ref="DESIGN.md §4 C14",
   note="Partial for PE/Mach-O beyond headers, section/segment tables, symbols and address queries (imports, TLS, dyld info, relocations are not modelled). Trusted: Coq kernel; harness/elfgen.py and fmtgen.py (reference readers/synthesisers).",
   technique="Coq proofs of codec/parser round trips + regenerated layout obligations + model correspondence + differential testing against independent readers"),
 "C15": dict(
   category="proof",
   text="Coq theorems over a model of Elf.loadsegment's page arithmetic and the loaders' write loop: for every power-of-two page size, every file and every list of load segments written in table order, each byte of each segment's file-backed part is the file byte mapped there and each bss byte is zero, provided later segments leave earlier ones intact - proved for page-disjoint ascending segments and for page-sharing neighbours with the same offset-address delta; fetching n bytes inside a segment returns the file's bytes; PE sections and Mach-O segments are raw bytes followed by zeros; for record formats the last write covering an address decides. Tie: Elf.loadsegment results and byte reads of whole loaded tasks vs the model (vm_compute); synthesised ELF images for all 8 machines with a loader x page sizes 2^8..2^16 x page-disjoint/page-sharing layouts, PE32/PE32+, Mach-O, HEX/SREC/raw inputs and the shipped samples (relocation / import / symbol-pointer slots as the only allowed deviations) vs an independent segment-table reader; program counter = entry; fetch at entry decodes the file's bytes. Five genuine defects found by this check were repaired.",
   design_ref="DESIGN.md §4 C15",
   note="Partial: initial registers other than the program counter, stack and OS stubs are not part of the model; memory is the abstract byte map (C08 ties MemoryMap to it).",
   technique="Coq proofs (page arithmetic, write-sequence invariants) + model correspondence + differential testing against an independent reader"),
 "C18": dict(
   category="proof",
   text="Coq theorems over a model of lsweep.iterblocks, block.cut and the support of cfg.graph: the blocks yielded for a stream are non-empty, concatenate to the stream, and each block followed by another is a maximal run closed by a control-flow instruction or by the delay slot of a delayed one; block.cut at an instruction address keeps exactly the prefix and reports the rest, elsewhere it changes nothing; and for every stream, every set of blocks that are maximal runs of it and every insertion order (with repetitions), the support contains an instruction iff an inserted block contains it, every such instruction lies in one block of the support and in only one. Tie: streams of real decoded instructions for 7 ISAs (delay slots on SPARC/MIPS/SH2) swept by lsweep: sequence consecutiveness and bytes, iterblocks/getblock, cut and slices, graph.support after insertion histories - all against the model (vm_compute) and against instruction bookkeeping, including the fall-through edge wherever a block was split. Three genuine defects repaired.",
   design_ref="DESIGN.md §4 C18",
   note="Domain as in the property: blocks are maximal runs of one stream started at an instruction that is not a delay slot; overlay blocks and function nodes are outside.",
   technique="Coq proofs (stream partition, insertion-order invariant of the support) + model correspondence + differential bookkeeping"),
 "C20": dict(
   category="proof",
   text="Coq theorems over a model of read_program's try/except chain with abstract constructors: the chain always yields a recognised format or the raw fallback when no constructor raises outside its own error types, an exception can only escape from the first constructor that does not reject, and a file carrying one format's magic that its own constructor recognises is never claimed by another format when the magic prefix tables are pairwise disjoint; the HEX/SREC line parsers (modelled completely in C14) are total. Tie: regenerated obligation (the magic prefixes of the live constants are pairwise disjoint); the hypotheses are tested per run: read_program on random bytes, magic+random, truncations and corruptions of the samples and of synthesised ELF/PE/Mach-O/HEX/SREC files (14 worker processes with CPU-time and memory limits) never raises, stays within the limits, returns a format only for inputs with its magic and identifies every valid file as its own format; corrupted HEX/SREC lines are compared with the complete line model. Ten genuine defects repaired, one known finding.",
   design_ref="DESIGN.md §4 C20",
   note="Partial by nature: the constructors' bodies are outside the model; 'never raises / bounded time and memory' is hypothesis testing with an 8 s CPU / 400 MB growth limit per input.",
   technique="Coq proofs about the identification chain + regenerated magic-table obligation + fault-injection differential testing with resource limits"),
 "C16": dict(
   category="proof",
   text="Coq theorems over a model of StructCore layout and the unpack/pack skeleton: every field of a non-packed structure sits at the least offset that is a multiple of its alignment and not before the previous field's end (the C ABI characterisation), packed structures have no padding, the size is a multiple of the alignment, unpack(pack(v)) = v for every field list and surrounding bytes, and the unsigned LEB128 codec round-trips for every number and trailing bytes. Tie: generated definitions (scalars, arrays, strings, full-width bitfields, nested structs/unions, packed or not, per-field byte order) through StructFactory vs the Gallina layout model (vm_compute); the C-layout reference is validated per run against gcc -m64 and -m32 -malign-double (sizeof/_Alignof/offsetof); unpack/pack round trips on random bytes for both pointer sizes; counted, bound, LEB128 (signed and unsigned, vs an independent encoder) and terminated fields. Nine genuine defects found by this check were repaired.",
   design_ref="DESIGN.md §4 C16",
   note="Trusted: Coq kernel; harness/c16.py (definition generator, C-layout calculator, gcc table parser); Python's struct module for scalar encodings. Bit-fields are compared with the model/reference only (C packs them into neighbouring units).",
   technique="Coq proofs of layout laws and codec round trips + model correspondence + gcc-validated differential testing"),
}
NOT_YET = {}
def main():
    props = [json.loads(l)["id"] for l in open(os.path.join(HERE, "properties.jsonl"))]
    checks, na = [], []
    for p in props:
        if p in CLAIMS:
            c = CLAIMS[p]
            checks.append({
              "property_id": p,
              "quick_cmd": "./check %s --tier quick" % p,
              "thorough_cmd": "./check %s --tier thorough" % p,
              "evidence_file": "/verif/evidence/%s.json" % p,
              "replay_cmd_template": "./check %s --replay {path}" % p,
              "engine": "coq-model+correspondence",
              "level_claimed": {"category": c["category"], "text": c["text"], "design_ref": c["design_ref"]},
              "level_note": c["note"],
              "technique": c["technique"]})
        else:
            na.append({"property_id": p, "reason": NOT_YET.get(p, "no check built yet in this round (model and theorem planned in DESIGN.md; not claimed until the check exists)")})
    m = {"version": 1,
         "setup_cmd": "./check --setup",
         "hooks": {"guard": "AMOCO_VERIF", "enable": "no source hooks: checks observe /repo from outside (env AMOCO_VERIF=1 is set by ./check but nothing in /repo reads it)",
                   "baseline_off_cmd": "cd /repo && /venv/bin/python -m pytest -ra -q -p no:cacheprovider --timeout=900 --continue-on-collection-errors",
                   "source_commits": [], "add_only": True},
         "engines": [{"name": "coq-model+correspondence", "path": "/verif/check", "serves_properties": sorted(CLAIMS),
                      "kind_free_text": "Coq 8.16.1 models and theorems (coq/), Python correspondence harnesses (harness/) running /repo and the model (vm_compute) on the same inputs"}],
         "checks": checks,
         "notes": "See DESIGN.md. known_findings.json lists genuine defects (known / fixed).",
         "not_applicable": na}
    json.dump(m, open(os.path.join(HERE, "MANIFEST.json"), "w"), indent=1)
    print("claimed:", sorted(CLAIMS), "unclaimed:", len(na))
if __name__ == "__main__":
    main()
