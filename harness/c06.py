# C06 — instruction semantics match the architecture (x86-64: the CPU; RISC-V: the manual).
# Static: coq/Properties/C06.v (reference interpreter for RV32I/RV64I written from the manual, with theorems about it;
# the AddWithCarry / SubWithBorrow flag formulas equal the architectural definitions of CF and OF for every width).
# Tie: (i) RISC-V: every base instruction form x boundary register/pc/memory values: amoco's mapper state after
# instruction(mapper) vs the Coq interpreter (vm_compute) and its Python mirror; (ii) cas/utils.py flag helpers vs the Coq
# formulas; (iii) x86-64: generated encodings (all operand sizes, REX/66/67 prefixes, register and memory forms, immediates)
# executed natively on this CPU by native/x86run.c vs amoco, on registers, memory bytes and architecturally defined flags.
import ctypes
import json
import os
import random
import subprocess

import common
import isa
import rvref as RV
import x86gen as XG
from common import zlit, clist

LEVEL = "proof"
GPR = ["rax", "rcx", "rdx", "rbx", "rsp", "rbp", "rsi", "rdi", "r8", "r9", "r10", "r11", "r12", "r13", "r14", "r15"]


# ------------------------------------------------------------------------------------------------ RISC-V
def rv_amoco(cpu, xlen, w, regs, pc, mem):
    from amoco.cas.mapper import mapper
    M = (1 << xlen) - 1
    i = cpu.disassemble(w.to_bytes(4, "little"), address=cpu.cst(pc, xlen))
    if i is None:
        return None
    m = mapper()
    for k in range(1, 32):
        m[cpu.x[k]] = cpu.cst(regs[k], xlen)
    m[cpu.pc] = cpu.cst(pc, xlen)
    for a, b in mem.items():
        m[cpu.mem(cpu.cst(a, xlen), 8)] = cpu.cst(b, 8)
    i(m)
    out = []
    for k in range(32):
        v = m(cpu.x[k])
        if k == 0:
            out.append(0 if (str(v) in ("zero", "x0") or (v._is_cst and v.value == 0)) else str(v))
        else:
            out.append((v.value & M) if v._is_cst else str(v))
    p = m(cpu.pc)
    return i, out, ((p.value & M) if p._is_cst else str(p)), m


def riscv_part(run, quick):
    import importlib
    rng = random.Random(run.seed * 733 + 6)
    rows, meta = [], []
    per = 14 if quick else 300
    for xlen, modname in ((32, "amoco.arch.riscv.cpu_rv32i"), (64, "amoco.arch.riscv.cpu_rv64i")):
        cpu = importlib.import_module(modname)
        M = (1 << xlen) - 1
        for name in RV.names(xlen):
            for t in range(per):
                w = RV.gen_word(rng, xlen, name)
                regs = [0] + [RV.boundary(rng, xlen) for _ in range(31)]
                pc = rng.choice([0, 0x1000, M - 3, RV.boundary(rng, xlen) & ~3])
                rs1 = RV.bits(w, 15, 5)
                if RV.bits(w, 0, 7) in (3, 35) and rs1:
                    # keep the access inside the address space (no wrap-around across the top)
                    regs[rs1] = rng.choice([0x2000, 0x7FFFF000, (M >> 1) + 5, rng.getrandbits(xlen - 2) + 4096]) & M
                a = 0 if rs1 == 0 else regs[rs1]
                base = (a + (RV.imm_i(w) if RV.bits(w, 0, 7) == 3 else RV.imm_s(w))) & M
                if base > M - 16:
                    continue
                mem = {base + k: rng.getrandbits(8) for k in range(-1, 9) if base + k >= 0}
                ref = RV.step(xlen, w, regs, pc, mem)
                rep = {"isa": "rv%d" % xlen, "word": "%08x" % w, "regs": regs, "pc": pc, "mem": {str(k): v for k, v in mem.items()}}
                if ref is None:
                    run.violation("harness|riscv-generator", "generated %s word %08x is rejected by the reference" % (name, w), rep)
                    continue
                run.count(("rv", xlen, w, tuple(regs), pc), nontrivial=True)
                run.hist("riscv_mnemonic", name)
                try:
                    r = rv_amoco(cpu, xlen, w, regs, pc, mem)
                except Exception as x:
                    run.violation("rv%d|%s|raised|%s" % (xlen, name, type(x).__name__), "%s (%08x): executing the semantics raised %r" % (name, w, x), rep)
                    continue
                if r is None:
                    run.violation("rv%d|%s|not-decoded" % (xlen, name), "%s word %08x of the base ISA is not decoded" % (name, w), rep)
                    continue
                i, out, p, m = r
                bad = None
                if out != [0] + ref[0][1:]:
                    k = next(k for k in range(32) if out[k] != (ref[0][k] if k else 0))
                    bad = ("reg", "x%d is %r, the manual gives %#x" % (k, out[k], ref[0][k] if k else 0))
                elif p != ref[1]:
                    bad = ("pc", "pc is %r, the manual gives %#x" % (p, ref[1]))
                else:
                    stores = dict(ref[2])
                    obs = []
                    for a2 in sorted(set(list(mem) + list(stores))):
                        v = m(cpu.mem(cpu.cst(a2, xlen), 8))
                        want = stores.get(a2, mem.get(a2))
                        if not (v._is_cst and v.value & 255 == want):
                            bad = ("store", "memory byte at %#x is %s, the manual gives %#x" % (a2, v, want))
                            break
                if bad:
                    run.violation("rv%d|%s|%s" % (xlen, name, bad[0]), "%s (%08x): %s" % (name, w, bad[1]), rep)
                    continue
                rows.append("(%d, %d, %s, %s, %s, (%s, %s, %s))" % (
                    xlen, w, clist(map(zlit, regs)), zlit(pc), clist(["(%s, %d)" % (zlit(a2), b2) for a2, b2 in sorted(mem.items())]),
                    clist(map(zlit, [0] + out[1:])), zlit(p), clist(["(%s, %d)" % (zlit(a2), b2) for a2, b2 in ref[2]])))
                meta.append(rep)
    return rows, meta


# ------------------------------------------------------------------------------------------------ flag helpers
def flags_part(run, quick):
    from amoco.cas.expressions import cst
    from amoco.cas.utils import AddWithCarry, SubWithBorrow
    rng = random.Random(run.seed * 739 + 6)
    awc, swb = [], []
    for t in range(400 if quick else 8000):
        n = rng.choice([1, 2, 8, 16, 32, 64, 128, rng.randrange(1, 70)])
        M = (1 << n) - 1
        pick = lambda: rng.choice([0, 1, M, M >> 1, (M >> 1) + 1, rng.getrandbits(n)]) & M
        x, y, c = pick(), pick(), rng.randrange(2)
        for f, rows, key in ((AddWithCarry, awc, "awc"), (SubWithBorrow, swb, "swb")):
            try:
                r, cf, ovf = f(cst(x, n), cst(y, n), cst(c, 1))
                obs = (r.value & M, cf.value & 1, ovf.value & 1)
            except Exception as e:
                run.violation("flags|%s|raised" % key, "%s raised %r" % (f.__name__, e), {"n": n, "x": x, "y": y, "c": c})
                continue
            run.count(("flags", key, n, x, y, c), nontrivial=True)
            want_r = (x + y + c) & M if key == "awc" else (x - y - c) & M
            want_c = int(x + y + c > M) if key == "awc" else int(x < y + c)
            sx, sy = (x - (1 << n) if x >> (n - 1) else x), (y - (1 << n) if y >> (n - 1) else y)
            sres = sx + sy + c if key == "awc" else sx - sy - c
            want_o = int(not (-(1 << (n - 1)) <= sres < (1 << (n - 1))))
            if obs != (want_r, want_c, want_o):
                run.violation("flags|%s" % key, "%s(%#x, %#x, %d) on %d bits gives (result, carry, overflow) = %r, the architecture defines %r" % (
                    f.__name__, x, y, c, n, obs, (want_r, want_c, want_o)), {"n": n, "x": x, "y": y, "c": c})
                continue
            rows.append("(%d, %s, %s, %d, (%s, %d, %d))" % (n, zlit(x), zlit(y), c, zlit(obs[0]), obs[1], obs[2]))
    return awc, swb


# ------------------------------------------------------------------------------------------------ x86-64 native
class St(ctypes.Structure):
    _fields_ = [("r", ctypes.c_uint64 * 16), ("rflags", ctypes.c_uint64)]


def native_lib(run):
    so = common.BUILD / "libx86run.so"
    src = common.VERIF / "native" / "x86run.c"
    if not so.exists() or so.stat().st_mtime < src.stat().st_mtime:
        common.BUILD.mkdir(exist_ok=True)
        subprocess.run(["gcc", "-O1", "-shared", "-fPIC", "-o", str(so), str(src)], check=True)
    lib = ctypes.CDLL(str(so))
    lib.run.argtypes = [ctypes.c_char_p, ctypes.c_int, ctypes.POINTER(St)]
    lib.get_scratch.restype = ctypes.c_void_p
    return lib


def conc(v):
    """concrete unsigned value of an expression built from constants only (cst, ptr, slc, comp), else None"""
    M = (1 << v.size) - 1
    if v._is_cst:
        return v.value & M
    if v._is_ptr:
        b = conc(v.base)
        return None if b is None else (b + v.disp) & M
    if v._is_slc:
        x = conc(v.x)
        return None if x is None else (x >> v.pos) & M
    if v._is_cmp:
        r = 0
        for (lo, hi), p in v.parts.items():
            x = conc(p)
            if x is None:
                return None
            r |= (x & ((1 << (hi - lo)) - 1)) << lo
        return r & M
    return None


def to_int(v, size):
    M = (1 << size) - 1
    r = conc(v)
    if r is not None:
        return r & M
    try:
        r = conc(v.simplify())
        if r is not None:
            return r & M
    except Exception:
        pass
    return str(v)


def x86_amoco(cpu, code, regs, flags, memwin, base):
    """returns (regs', flags', memory window', length) after instruction(mapper)"""
    from amoco.cas.mapper import mapper
    i = cpu.disassemble(code + b"\x90" * (15 - len(code)), address=cpu.cst(0x400000, 64))
    if i is None:
        return None
    m = mapper()
    for k, name in enumerate(GPR):
        m[getattr(cpu, name)] = cpu.cst(regs[k], 64)
    for name, bit in (("cf", 0), ("pf", 2), ("af", 4), ("zf", 6), ("sf", 7), ("of", 11)):
        m[getattr(cpu, name)] = cpu.cst((flags >> bit) & 1, 1)
    m[cpu.df] = cpu.cst(0, 1)
    m[cpu.rip] = cpu.cst(0x400000, 64)
    m.mmap.write(base, bytes(memwin))
    i(m)
    out = []
    for k, name in enumerate(GPR):
        out.append(to_int(m(getattr(cpu, name)), 64))
    fl = 0
    sym = []
    for name, bit in (("cf", 0), ("pf", 2), ("af", 4), ("zf", 6), ("sf", 7), ("of", 11)):
        v = to_int(m(getattr(cpu, name)), 1)
        if isinstance(v, int):
            fl |= (v & 1) << bit
        else:
            sym.append((name, bit, v))
    mw = []
    for p in m.mmap.read(base, len(memwin)):
        if isinstance(p, bytes):
            mw.extend(p)
        else:
            v = to_int(p, p.size)
            mw.extend(list(v.to_bytes(p.size // 8, "little")) if isinstance(v, int) else [v] * (p.size // 8))
    return i, out, fl, sym, mw, to_int(m(cpu.rip), 64)


def shift_mask(case, regs, code):
    """defined flags of a shift / rotate for the count actually used"""
    sub, form = case.kw["shift"]
    size = case.opsize
    if form == 0xC0:
        cnt = code[-1]
    elif form == 0xD0:
        cnt = 1
    else:
        cnt = regs[1] & 0xFF
    cnt &= 63 if size == 64 else 31
    if cnt == 0:
        return XG.ALL            # nothing changes: all flags comparable
    rot = sub < 4
    if rot:
        if sub in (2, 3):          # RCL / RCR: count modulo size+1 for 8/16 bit operands
            eff = cnt % (size + 1) if size < 32 else cnt
            if eff == 0:
                return XG.ALL & ~XG.OF       # the value and CF are unchanged; OF is undefined for counts other than 1
            return XG.CF | (XG.OF if cnt == 1 else 0) | XG.PF | XG.AF | XG.ZF | XG.SF
        if size < 32 and cnt % size == 0:
            # count multiple of the operand size: CF/OF behaviour differs between documentation and implementations
            return XG.PF | XG.AF | XG.ZF | XG.SF
        return XG.CF | (XG.OF if cnt == 1 else 0) | XG.PF | XG.AF | XG.ZF | XG.SF      # PF AF ZF SF unaffected
    m = XG.PF | XG.ZF | XG.SF
    if cnt <= size:
        m |= XG.CF
    if cnt == 1:
        m |= XG.OF
    return m


def x86_part(run, quick):
    import amoco.arch.x64.cpu_x64 as cpu
    lib = native_lib(run)
    sc = lib.get_scratch()
    if not sc:
        run.cov["x86_native"] = "scratch buffer could not be mapped below 2 GB: native comparison skipped"
        return
    rng = random.Random(run.seed * 743 + 6)
    XG.ABS_SCRATCH = sc + 0x8000 + 56
    n = 2500 if quick else 60000
    WIN = 160
    done = 0

    def cases():
        for t in range(n):
            if rng.random() < 0.04:
                cc, code, disp = XG.jcc_case(rng)
                yield XG.Case("J%d" % cc, code, 0, 64, jcc=(cc, disp))
            else:
                yield XG.gen_case(rng)
        # SIB operands: every REX.X / REX.B / index field / scale / mod combination (see x86gen.sib_sweep)
        for c in XG.sib_sweep(rng, 3 if quick else 24):
            yield c
        # products at the edge of the destination width (see x86gen.mul_sweep)
        for c in XG.mul_sweep(rng, 2 if quick else 20):
            yield c

    for case in cases():
        if case is None:
            continue
        code = case.code
        jcc = "jcc" in case.kw
        if jcc:
            cc, disp = case.kw["jcc"]
        regs = []
        for k in range(16):
            regs.append(rng.choice([0, 1, 0xFF, 0x80, 0x7F, 0xFFFF, 0x8000, 0xFFFFFFFF, 0x80000000, 0x7FFFFFFF, (1 << 64) - 1, 1 << 63, (1 << 63) - 1,
                                    rng.getrandbits(64), rng.getrandbits(64), rng.getrandbits(8)]))
        base = sc + 0x8000
        for k in XG.PTR_REGS:
            regs[k] = base + 56 + rng.randrange(0, 8)
        idx = getattr(case, "idx", None)
        if idx is not None:
            regs[idx] = rng.randrange(0, 3)
        if case.setregs:
            # SIB sweep: the address registers get the values that put the effective address inside the window
            for k, v in case.setregs.items():
                regs[k] = v
            if "mul" in case.kw:
                run.hist("x86_mul_edge", "%s/%d/%s" % (case.kw["mul"]["form"], case.kw["mul"]["width"], case.kw["mul"]["edge"]))
            sib = case.kw.get("sib")
            if sib is not None:
                run.hist("x86_sib_index", "none" if sib["index_reg"] is None else GPR[sib["index_reg"]])
                run.hist("x86_sib_base", "none" if sib["base_reg"] is None else GPR[sib["base_reg"]])
                run.hist("x86_sib_form", "mod%d scale%d%s" % (sib["mod"], 1 << sib["scale"], " a32" if case.kw["a67"] else ""))
        flags = rng.choice([0, 0x8D5, rng.getrandbits(12) & 0x8D5])
        memwin = rng.randbytes(WIN)
        ctypes.memmove(base - 8, memwin, WIN)
        st = St()
        for k in range(16):
            st.r[k] = regs[k]
        st.rflags = flags
        ncode = code
        if jcc:
            ncode = bytes([0x0F, 0x90 | cc, 0xC0])       # SETcc al tells whether the condition holds
        rc = lib.run(ncode, len(ncode), ctypes.byref(st))
        rep = {"isa": "x64", "code": code.hex(), "regs": regs, "flags": flags, "mem": memwin.hex(), "mem_base": base - 8}
        if rc != 0:
            run.hist("x86_native_fault", str(rc))
            continue
        nregs = [st.r[k] for k in range(16)]
        nflags = st.rflags & 0x8D5
        nmem = list(ctypes.string_at(base - 8, WIN))
        try:
            r = x86_amoco(cpu, code, regs, flags, memwin, base - 8)
        except Exception as x:
            run.violation("x64|%s|raised|%s" % (case.name, type(x).__name__), "%s (%s): executing the semantics raised %r" % (case.name, code.hex(), x), rep)
            continue
        if r is None:
            run.violation("x64|%s|not-decoded" % case.name, "%s: the CPU executes %s, amoco does not decode it" % (case.name, code.hex()), rep)
            continue
        i, out, fl, sym, mw, rip = r
        if not hasattr(cpu.asm if hasattr(cpu, "asm") else cpu, "i_" + i.mnemonic) and "i_" + i.mnemonic not in dir(__import__("amoco.arch.x64.asm", fromlist=["x"])):
            run.violation("x64|%s|no-semantics" % i.mnemonic, "%s (%s): the instruction is decoded but has no semantics (state unchanged, rip not advanced)" % (i.mnemonic, code.hex()), rep)
            continue
        done += 1
        run.count(("x64", code, tuple(regs), flags, memwin), nontrivial=True)
        run.hist("x86_class", case.name.rstrip("0123456789"))
        run.hist("x86_opsize", str(case.opsize))
        if i.length != len(code):
            run.violation("x64|%s|length" % case.name, "%s: amoco decodes %d bytes of %s (%s), the CPU executed %d" % (case.name, i.length, code.hex(), i, len(code)), rep)
            continue
        if jcc:
            taken = nregs[0] & 1
            want = (0x400000 + len(code) + (disp if taken else 0)) & ((1 << 64) - 1)
            if rip != want:
                run.violation("x64|Jcc|target", "J(cc=%d) %s with flags %#x: rip becomes %r, the CPU's condition says %#x" % (cc, code.hex(), flags, rip, want), rep)
            continue
        mask = case.mask if case.mask >= 0 else shift_mask(case, regs, code)
        bad = None
        for k in range(16):
            if k == 4:
                continue
            if out[k] != nregs[k]:
                bad = ("reg", "%s is %s after amoco's semantics, the CPU gives %#x" % (GPR[k], out[k] if isinstance(out[k], str) else hex(out[k]), nregs[k]))
                break
        if bad is None and mw != nmem:
            k = next(k for k in range(WIN) if mw[k] != nmem[k])
            bad = ("mem", "memory byte +%d is %r after amoco's semantics, the CPU wrote %#x" % (k, mw[k], nmem[k]))
        if bad is None:
            for name, bit, txt in sym:
                if mask & (1 << bit):
                    bad = ("flag-symbolic", "defined flag %s is left symbolic: %s" % (name, txt[:80]))
            if bad is None and (fl & mask) != (nflags & mask):
                d = (fl ^ nflags) & mask
                names = [nm for nm, b in (("cf", 0), ("pf", 2), ("af", 4), ("zf", 6), ("sf", 7), ("of", 11)) if d >> b & 1]
                bad = ("flags|" + "+".join(names), "flags %s differ: amoco %#x, CPU %#x (defined mask %#x, before %#x)" % (names, fl & mask, nflags & mask, mask, flags))
        if bad is None and rip != 0x400000 + len(code):
            bad = ("rip", "rip is %r after the instruction, expected %#x" % (rip, 0x400000 + len(code)))
        if bad:
            run.violation("x64|%s|%d|%s" % (case.name.rstrip("0123456789"), case.opsize, bad[0]), "%s %s (%s): %s" % (case.name, code.hex(), i, bad[1]), rep)
    run.cov["x86_native_cases"] = done


ALU_OPS = ["ADD", "ADC", "SUB", "SBB", "CMP", "AND", "OR", "XOR", "TEST", "INC", "DEC", "NEG", "NOT"]
ALU_BIN = {"ADD": 0x00, "OR": 0x08, "ADC": 0x10, "SBB": 0x18, "AND": 0x20, "SUB": 0x28, "XOR": 0x30, "CMP": 0x38, "TEST": 0x84}
ALU_UN = {"INC": (0xFE, 0), "DEC": (0xFE, 1), "NOT": (0xF6, 2), "NEG": (0xF6, 3)}


def alu_encode(op, n):
    """register form: destination rbx (rm=3), source rcx (reg=1)"""
    pre = {8: b"", 16: b"\x66", 32: b"", 64: b"\x48"}[n]
    if op in ALU_BIN:
        return pre + bytes([ALU_BIN[op] | (0 if n == 8 else 1), 0xC0 | (1 << 3) | 3])
    o, ext = ALU_UN[op]
    return pre + bytes([o | (0 if n == 8 else 1), 0xC0 | (ext << 3) | 3])


def alu_part(run, quick):
    """amoco's semantics of the register forms of the integer ALU instructions (and the host CPU) against the Gallina model of
    the Intel SDM, Amoco.C06.X86Alu.alu (destination and the flags the manual defines), evaluated by the Coq kernel"""
    import amoco.arch.x64.cpu_x64 as cpu
    lib = native_lib(run)
    sc = lib.get_scratch() if lib is not None else 0
    rng = random.Random(run.seed * 977 + 41)
    rows, meta = [], []
    for n in (8, 16, 32, 64):
        m = (1 << n) - 1
        vals = [0, 1, 2, 0xF, 0x10, 0x7F & m, 0x80 & m, m, m - 1, m >> 1, (m >> 1) + 1, (m >> 1) + 2, 0x55 & m, 0xAA & m]
        vals += [rng.getrandbits(n) for _ in range(4 if quick else 24)]
        for k, op in enumerate(ALU_OPS):
            pairs = [(a, b) for a in vals for b in (vals if op in ALU_BIN else [0])]
            if len(pairs) > (40 if quick else 400):
                pairs = rng.sample(pairs, 40 if quick else 400) + [(0, 0), (m, m), (m, 1), ((m >> 1) + 1, 1), (m >> 1, 1), (0, 1), (0x10 & m, 1), (0xF, 1)]
            for a, b in pairs:
                cin = rng.getrandbits(1)
                code = alu_encode(op, n)
                regs = [rng.getrandbits(64) for _ in range(16)]
                regs[3] = (regs[3] & ~m) | a
                regs[1] = (regs[1] & ~m) | b
                flags = (rng.getrandbits(12) & 0x8D4) | cin
                base = (sc + 0x8000) if sc else 0x10000
                for kk in XG.PTR_REGS:
                    if kk not in (1, 3):
                        regs[kk] = base + 56
                rep = {"isa": "x64", "code": code.hex(), "regs": regs, "flags": flags, "mem": "", "op": op, "width": n, "a": a, "b": b, "carry_in": cin}
                try:
                    r = x86_amoco(cpu, code, regs, flags, b"", base)
                except Exception as x:
                    run.violation("x64|%s|raised|%s" % (op, type(x).__name__), "%s (%s): executing the semantics raised %r" % (op, code.hex(), x), rep)
                    continue
                if r is None:
                    run.violation("x64|%s|not-decoded" % op, "amoco does not decode %s" % code.hex(), rep)
                    continue
                i, out, fl, sym, mw, rip = r
                if not isinstance(out[3], int):
                    run.violation("x64|%s|%d|reg" % (op, n), "%s %s: destination left symbolic: %s" % (op, code.hex(), out[3]), rep)
                    continue
                res = out[3] & m
                if op in ("CMP", "TEST"):
                    res = -1 if out[3] == regs[3] else res
                fw = fl
                for name, bit, txt in sym:
                    fw ^= 0            # a symbolic flag keeps bit 0 in fl: reported below if the manual defines it
                rows.append("(%d, %d, %s, %s, %d, (%s, %d))" % (k, n, zl(a), zl(b), cin, zl(res), fw))
                meta.append((rep, "amoco", sym))
                run.count(("alu", op, n, a, b, cin), nontrivial=True)
                run.hist("x86_alu_model_cases", "%s/%d" % (op, n))
                if sc:
                    st = St()
                    for kk in range(16):
                        st.r[kk] = regs[kk]
                    st.rflags = flags
                    if lib.run(code, len(code), ctypes.byref(st)) == 0:
                        nres = st.r[3] & m
                        if op in ("CMP", "TEST"):
                            nres = -1 if st.r[3] == regs[3] else nres
                        rows.append("(%d, %d, %s, %s, %d, (%s, %d))" % (k, n, zl(a), zl(b), cin, zl(nres), st.rflags & 0x8D5))
                        meta.append((rep, "cpu", []))
    hdr = "From Coq Require Import ZArith List.\nImport ListNotations.\nRequire Import Amoco.C06.Flags Amoco.C06.X86Alu.\nOpen Scope Z_scope.\n"
    shards = [(i, rows[i:i + 500]) for i in range(0, len(rows), 500)]
    texts = [("alu_%03d" % (i // 500), hdr + "Definition cases : list alu_case := [\n%s\n].\nEval vm_compute in (bad_from check_alu 0 cases).\n" % ";\n".join(sh)) for i, sh in shards]
    res = common.coq_eval_many(run.work / "alu", texts)
    n_ok = 0
    for i, sh in shards:
        rc, outp = res["alu_%03d" % (i // 500)]
        lists = common.parse_nat_list(outp)
        if rc != 0 or len(lists) != 1:
            run.violation("model-eval|alu", "x86 ALU model evaluation failed", {"theorem_or_correspondence": "Amoco.C06.X86Alu.check_alu", "output": outp[-800:]}, found_input=False)
            continue
        n_ok += len(sh)
        for idx in lists[0][:4]:
            rep, who, sym = meta[i + idx]
            if who == "cpu":
                run.violation("model-vs-cpu|%s|%d" % (rep["op"], rep["width"]), "the Gallina ALU model disagrees with the host CPU (the model is wrong): %s" % sh[idx], dict(rep, case=sh[idx]), found_input=False)
            else:
                run.violation("x64|%s|%d|alu-model" % (rep["op"], rep["width"]),
                              "%s/%d a=%#x b=%#x carry=%d (%s): amoco's destination / defined flags differ from the manual's (Amoco.C06.X86Alu.alu): case %s"
                              % (rep["op"], rep["width"], rep["a"], rep["b"], rep["carry_in"], rep["code"], sh[idx]), dict(rep, case=sh[idx]))
    run.cov["x86_alu_model_cases_in_coq"] = n_ok
    run.cov["traces_validated_against_impl"] = run.cov.get("traces_validated_against_impl", 0) + n_ok


def zl(v):
    return "(%d)" % v if v < 0 else str(v)


def stack_part(run, quick):
    """PUSH / POP of registers and of memory operands, including the forms that involve rsp itself (pop rsp, push rsp, [rsp+disp]
    operands), which the native trampoline cannot run (it keeps the real stack pointer).  Oracle: the operation section of the
    PUSH / POP pages of the Intel SDM, written out below on plain integers and a byte array: PUSH reads its operand (with the old
    rsp) then decrements and stores; POP reads the top, increments, then computes a memory destination (with the new rsp) or writes
    the register."""
    import amoco.arch.x64.cpu_x64 as cpu
    rng = random.Random(run.seed * 389 + 3)
    WIN, base = 160, 0x20000
    M64 = (1 << 64) - 1
    cases = []
    for r in range(16):
        rex = b"\x41" if r >= 8 else b""
        for pre, n in ((b"", 8), (b"\x66", 2)):
            cases.append(("push r", pre + rex + bytes([0x50 | (r & 7)]), ("push", "reg", r, n)))
            cases.append(("pop r", pre + rex + bytes([0x58 | (r & 7)]), ("pop", "reg", r, n)))
        for disp in (0, 8, 0x10, 0xF8, 0xF0, 6):
            mrm = bytes([0x40 | (r & 7)]) + (b"\x24" if (r & 7) == 4 else b"") + bytes([disp])
            cases.append(("pop m", rex + b"\x8F" + mrm, ("pop", "mem", r, 8, disp)))
            cases.append(("push m", rex + b"\xFF" + bytes([mrm[0] | 0x30]) + mrm[1:], ("push", "mem", r, 8, disp)))
    done = 0
    for name, code, what in cases:
        for rep in range(2 if quick else 8):
            regs = [rng.getrandbits(64) for _ in range(16)]
            regs[4] = base + 64 + 8 * rng.randrange(0, 3)
            if what[1] == "mem" and what[2] != 4:
                regs[what[2]] = base + 72 + rng.randrange(0, 4)
            elif what[1] == "reg" and what[2] != 4 and rng.random() < 0.3:
                regs[what[2]] = base + 40
            flags = rng.getrandbits(12) & 0x8D5
            memwin = bytearray(rng.randbytes(WIN))
            # reference
            R, Mem = list(regs), bytearray(memwin)
            op, kind, r, n = what[:4]
            sx = lambda d: d - 256 if d >= 128 else d

            def rd(a, k):
                return int.from_bytes(Mem[a - base:a - base + k], "little")

            def wr(a, k, v):
                Mem[a - base:a - base + k] = (v & ((1 << (8 * k)) - 1)).to_bytes(k, "little")
            if op == "push":
                v = (R[r] & ((1 << (8 * n)) - 1)) if kind == "reg" else rd((R[r] + sx(what[4])) & M64, n)
                R[4] = (R[4] - n) & M64
                wr(R[4], n, v)
            else:
                v = rd(R[4], n)
                R[4] = (R[4] + n) & M64
                if kind == "reg":
                    R[r] = v if n == 8 else ((R[r] & ~0xFFFF) | v)
                else:
                    wr((R[r] + sx(what[4])) & M64, n, v)
            rep_ = {"isa": "x64", "code": code.hex(), "regs": regs, "flags": flags, "mem": bytes(memwin).hex(), "mem_base": base}
            try:
                res = x86_amoco(cpu, code, regs, flags, bytes(memwin), base)
            except Exception as x:
                run.violation("x64|%s|raised|%s" % (name, type(x).__name__), "%s (%s): executing the semantics raised %r" % (name, code.hex(), x), rep_)
                continue
            if res is None:
                run.violation("x64|%s|not-decoded" % name, "amoco does not decode %s" % code.hex(), rep_)
                continue
            i, out, fl, sym, mw, rip = res
            done += 1
            run.count(("stack", code, tuple(regs), bytes(memwin)), nontrivial=True)
            run.hist("x86_stack_forms", "%s%s" % (name, " (rsp)" if r == 4 else ""))
            bad = None
            for k in range(16):
                if out[k] != R[k]:
                    bad = ("reg", "%s is %s after amoco's semantics, the manual gives %#x" % (GPR[k], out[k] if isinstance(out[k], str) else hex(out[k]), R[k]))
                    break
            if bad is None and list(mw) != list(Mem):
                k = next(k for k in range(WIN) if mw[k] != Mem[k])
                bad = ("mem", "memory byte +%d is %r after amoco's semantics, the manual gives %#x" % (k, mw[k], Mem[k]))
            if bad is None and (fl != flags or sym):
                bad = ("flags", "flags changed: %#x -> %#x" % (flags, fl))
            if bad is None and rip != 0x400000 + len(code):
                bad = ("rip", "rip is %r" % (rip,))
            if bad:
                run.violation("x64|%s|%s" % (name.split()[0].upper(), bad[0]), "%s %s (%s): %s" % (name, code.hex(), i, bad[1]), rep_)
    run.cov["x86_stack_cases"] = done


def check(run):
    quick = run.tier == "quick"
    isa.load_all()
    run.cov["rule"] = ("RISC-V: every RV32I / RV64I base instruction form with random fields, rd/rs1 = x0 and rs1 = rs2 cases, registers and pc from "
                       "a boundary set, memory around the accessed address; flag helpers: widths 1..128 with boundary operands; x86-64: ALU "
                       "(reg/mem/imm forms), INC/DEC/NEG/NOT/TEST, MOV/MOVZX/MOVSX/MOVSXD/LEA/XCHG/XADD, shifts and rotates (imm, 1, cl), IMUL, "
                       "CMOVcc/SETcc/Jcc, CBW.., flag instructions, operand sizes 8/16/32/64 with REX/66/67 prefixes, boundary register values; "
                       "SIB operands swept over REX.X x REX.B x index field (incl. 100b: none / r12) x scale x mod 00/01/10 with random base field "
                       "(incl. 101b: disp32 only / rbp / r13) and 67 prefix, for LEA / loads / stores / read-modify-write forms, index registers "
                       "holding non-zero values and the base (or disp32) compensating so that the address falls in the compared window; "
                       "distinct by (encoding, state)")
    run.static_part()
    rows, meta = riscv_part(run, quick)
    awc, swb = flags_part(run, quick)
    hdr = "From Coq Require Import ZArith List.\nImport ListNotations.\nOpen Scope Z_scope.\n"
    texts = []

    def shard(name, rows, imp, typ, fn, size):
        for i in range(0, len(rows), size):
            texts.append(("%s_%03d" % (name, i // size), hdr + "Require Import %s.\nDefinition cases : list (%s) := [\n%s\n].\nEval vm_compute in (bad_from %s 0 cases).\n" % (
                imp, typ, ";\n".join(rows[i:i + size]), fn), name, i))
    shard("rv", rows, "Amoco.C06.RV", "Z * Z * list Z * Z * list (Z * Z) * (list Z * Z * list (Z * Z))", "check_step", 150)
    shard("awc", awc, "Amoco.C06.Flags", "Z * Z * Z * Z * (Z * Z * Z)", "check_awc", 500)
    shard("swb", swb, "Amoco.C06.Flags", "Z * Z * Z * Z * (Z * Z * Z)", "check_swb", 500)
    res = common.coq_eval_many(run.work / "cases", [(n, t) for n, t, _, _ in texts])
    ok = 0
    for n, t, kind, base in texts:
        rc, out = res[n]
        lists = common.parse_nat_list(out)
        if rc != 0 or len(lists) != 1:
            run.violation("model-eval|" + kind, "%s model evaluation failed" % kind, {"theorem_or_correspondence": "Amoco.C06 check (%s)" % n, "output": out[-600:]}, found_input=False)
            continue
        ok += t.count(";\n(") + 1
        for k in lists[0][:2]:
            rep = {"theorem_or_correspondence": "Amoco.C06 check_%s" % kind, "case_index": base + k}
            if kind == "rv":
                rep.update(meta[base + k])
            run.violation(kind + "|model-impl-correspondence", "%s: amoco's result (accepted by the Python mirror) differs from the Coq reference" % kind, rep, found_input=(kind == "rv"))
    run.cov["model_cases"] = ok
    run.cov["traces_validated_against_impl"] = run.cov.get("traces_validated_against_impl", 0) + ok
    x86_part(run, quick)
    alu_part(run, quick)
    stack_part(run, quick)
    run.cov["trusted_base"] += ["coq/C06/RV.v is the reference (written from the RISC-V manual); harness/rvref.py mirrors it for diagnostics only",
                                "native/x86run.c trampoline (register/flag load and store around the instruction) and the CPU of this machine",
                                "harness/x86gen.py: encodings and the table of architecturally defined flags per instruction",
                                "coq/C06/X86Alu.v is written from the Intel SDM; on every run it is compared with the host CPU as well as with amoco"]
    run.assumptions += ["x86 (native part): instructions that touch rsp (PUSH / POP are compared with the manual's operation section instead), transfer control (other than Jcc via SETcc), fault, or use rip-relative / segment-override addressing are not generated; "
                        "DIV/IDIV, memory forms of the one-operand MUL/IMUL, BT*, BS*, SHLD/SHRD, CMPXCHG, string instructions and IA-32-only encodings are outside the generated subset",
                        "RISC-V: memory accesses that wrap around the top of the address space are not generated"]
    return run


def replay(path):
    obj = json.load(open(path))["replay"]
    isa.load_all()
    import importlib
    if obj.get("isa", "").startswith("rv"):
        xlen = int(obj["isa"][2:])
        cpu = importlib.import_module("amoco.arch.riscv.cpu_rv%di" % xlen)
        w = int(obj["word"], 16)
        mem = {int(k): v for k, v in obj["mem"].items()}
        ref = RV.step(xlen, w, obj["regs"], obj["pc"], mem)
        r = rv_amoco(cpu, xlen, w, obj["regs"], obj["pc"], mem)
        print("reference:", ref and (ref[3], [hex(v) for v in ref[0]], hex(ref[1]), ref[2]))
        print("amoco    :", r and (str(r[0]), [hex(v) if isinstance(v, int) else v for v in r[1]], r[2]))
        return 0 if (r and ref and r[1] == [0] + ref[0][1:] and r[2] == ref[1]) else 1
    print(obj)
    return 1
