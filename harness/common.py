# Shared machinery of every check: Coq build / evaluation, evidence, violations, known findings.
import fcntl
import hashlib
import json
import os
import re
import subprocess
import sys
import time
from concurrent.futures import ThreadPoolExecutor
from pathlib import Path

VERIF = Path(__file__).resolve().parent.parent
REPO = Path(os.environ.get("AMOCO_REPO", "/repo"))
COQ = VERIF / "coq"
BUILD = VERIF / "build"
PY = "/venv/bin/python"
GUARD = "AMOCO_VERIF"

ALLOWED_AXIOMS = {
    # axioms declared by Coq's standard library that a theorem may depend on; each use is
    # reported per theorem in the evidence (none is expected: the target is "Closed").
    "functional_extensionality_dep",
    "Eqdep.Eq_rect_eq.eq_rect_eq",
    "Coq.Logic.Eqdep.Eq_rect_eq.eq_rect_eq",
    "Coq.Logic.FunctionalExtensionality.functional_extensionality_dep",
}

FORBIDDEN = re.compile(
    r"\b(Admitted|admit|Axiom|Axioms|Parameter|Parameters|Conjecture|Conjectures|Hypothesis|Hypotheses|Variable|Variables|Abort)\b"
    r"|Unset\s+Guard|bypass_check|type-in-type|impredicative-set|Admit\s+Obligations|Unset\s+Universe|Unset\s+Positivity"
)


def impl_env():
    e = dict(os.environ)
    e["PYTHONPATH"] = str(REPO)
    e["PYTHONHASHSEED"] = "0"
    e[GUARD] = "1"
    e.pop("PYTHONSTARTUP", None)
    return e


def sh(cmd, timeout=None, cwd=None, env=None, inp=None):
    p = subprocess.run(cmd, shell=isinstance(cmd, str), cwd=cwd, env=env, input=inp,
                       stdout=subprocess.PIPE, stderr=subprocess.STDOUT, timeout=timeout, text=True)
    return p.returncode, p.stdout


# ---------------------------------------------------------------------------------------
# Coq project
# ---------------------------------------------------------------------------------------
def coq_sources():
    out = []
    for p in sorted(COQ.rglob("*.v")):
        rel = p.relative_to(COQ)
        if rel.parts[0] in ("Gen",):
            continue
        out.append(str(rel))
    return out


def forbidden_scan():
    """Source scan: no Admitted/Axiom/Parameter/... anywhere in the development.
    `Variable`/`Hypothesis` are allowed only inside a Section (checked textually)."""
    bad = []
    for rel in coq_sources():
        txt = (COQ / rel).read_text()
        txt_nc = re.sub(r"\(\*.*?\*\)", lambda m: " " * len(m.group(0)), txt, flags=re.S)
        depth = 0
        for ln, line in enumerate(txt_nc.splitlines(), 1):
            if re.match(r"\s*Section\b", line):
                depth += 1
            for m in FORBIDDEN.finditer(line):
                w = m.group(0)
                if w.split()[0] in ("Variable", "Variables", "Hypothesis", "Hypotheses") and depth > 0:
                    continue
                bad.append("%s:%d: %s" % (rel, ln, w))
            if re.match(r"\s*End\b", line) and depth > 0:
                depth -= 1
    return bad


def coq_make(jobs=16, timeout=3400):
    """Full .vo build of /verif/coq (incremental). Returns (ok, log)."""
    BUILD.mkdir(exist_ok=True)
    lock = open(BUILD / ".make.lock", "w")
    fcntl.flock(lock, fcntl.LOCK_EX)
    try:
        srcs = coq_sources()
        proj = "-Q . Amoco\n-arg -w -arg -notation-overridden,-deprecated-hint-without-locality,-deprecated-instance-without-locality,-ambiguous-paths\n" + "\n".join(srcs) + "\n"
        pf = COQ / "_CoqProject"
        if not pf.exists() or pf.read_text() != proj or not (COQ / "Makefile").exists():
            pf.write_text(proj)
            rc, out = sh("coq_makefile -f _CoqProject -o Makefile", cwd=COQ, timeout=120)
            if rc != 0:
                return False, out
        rc, out = sh("timeout %d make -j%d 2>&1" % (timeout, jobs), cwd=COQ, timeout=timeout + 60)
        return rc == 0, out
    finally:
        fcntl.flock(lock, fcntl.LOCK_UN)
        lock.close()


def coqc_file(path, timeout=600, extra_q=()):
    """Compile one .v file outside the project (generated / cases files)."""
    cmd = ["timeout", str(timeout), "coqc", "-q", "-w", "none", "-Q", str(COQ), "Amoco"]
    for d, n in extra_q:
        cmd += ["-Q", str(d), n]
    cmd.append(str(path))
    t0 = time.time()
    rc, out = sh(cmd, timeout=timeout + 30, cwd=str(Path(path).parent))
    return rc, out, time.time() - t0


def coq_eval_many(workdir, named_texts, timeout=600, jobs=14, extra_q=()):
    """Write each (name, text) as workdir/name.v and compile them in parallel.
    Returns {name: (rc, output)}."""
    workdir = Path(workdir)
    workdir.mkdir(parents=True, exist_ok=True)
    res = {}

    def one(nt):
        name, text = nt
        p = workdir / (name + ".v")
        p.write_text(text)
        rc, out, dt = coqc_file(p, timeout=timeout, extra_q=extra_q)
        return name, rc, out

    with ThreadPoolExecutor(max_workers=jobs) as ex:
        for name, rc, out in ex.map(one, named_texts):
            res[name] = (rc, out)
    return res


def parse_nat_list(out, marker="MISMATCH"):
    """Parse the result of  `Eval vm_compute in (marker, l)` style output is fragile; instead
    cases files print with:  Eval vm_compute in l.  following a line `(*marker*)`.  We join the
    output and look for `= [..]` chunks in order."""
    flat = " ".join(out.split())
    res = []
    for m in re.finditer(r"= (\[[^\]]*\]|nil)(?:%\w+)?\s*: list (?:nat|Z|N)", flat):
        body = m.group(1)
        if body in ("nil", "[]"):
            res.append([])
        else:
            res.append([int(x.strip().rstrip("%natZN").strip("()") or 0) for x in body.strip("[]").split(";") if x.strip()])
    return res


# ---------------------------------------------------------------------------------------
# Property theorems / assumptions
# ---------------------------------------------------------------------------------------
def property_theorems(pid):
    f = COQ / "Properties" / (pid + ".v")
    if not f.exists():
        return []
    txt = re.sub(r"\(\*.*?\*\)", "", f.read_text(), flags=re.S)
    return re.findall(r"^\s*(?:Theorem|Corollary|Example|Lemma)\s+([A-Za-z0-9_']+)", txt, flags=re.M)


def check_assumptions(pid, workdir):
    """Runs Print Assumptions on every theorem of Properties/<pid>.v against the compiled .vo.
    Returns (n_obligations, n_discharged, details list, raw output)."""
    thms = property_theorems(pid)
    if not thms:
        return 0, 0, [], "no property file"
    workdir = Path(workdir)
    workdir.mkdir(parents=True, exist_ok=True)
    text = "Require Import Amoco.Properties.%s.\n" % pid
    for t in thms:
        text += 'Goal True. idtac "@@THM %s". exact I. Qed.\nPrint Assumptions %s.\n' % (t, t)
    p = workdir / ("Assum_%s.v" % pid)
    p.write_text(text)
    rc, out, dt = coqc_file(p, timeout=900)
    details = []
    ok = 0
    chunks = out.split("@@THM ")
    seen = {}
    for ch in chunks[1:]:
        name, _, rest = ch.partition("\n")
        seen[name.strip()] = rest
    for t in thms:
        rest = seen.get(t)
        if rest is None:
            details.append({"theorem": t, "status": "not-compiled"})
            continue
        if "Closed under the global context" in rest:
            details.append({"theorem": t, "status": "closed"})
            ok += 1
            continue
        axs = re.findall(r"^([A-Za-z0-9_.']+)\s*:", rest, flags=re.M)
        badax = [a for a in axs if a not in ALLOWED_AXIOMS and a.split(".")[-1] not in ALLOWED_AXIOMS]
        if axs and not badax:
            details.append({"theorem": t, "status": "axioms", "axioms": axs})
            ok += 1
        else:
            details.append({"theorem": t, "status": "bad-axioms", "axioms": axs, "raw": rest[:400]})
    return len(thms), ok, details, out if rc != 0 else ""


# ---------------------------------------------------------------------------------------
# Known findings
# ---------------------------------------------------------------------------------------
def load_known(pid):
    f = VERIF / "known_findings.json"
    if not f.exists():
        return {}
    d = json.loads(f.read_text())
    return {x["key"]: x for x in d.get("findings", []) if x.get("property") == pid and x.get("status") == "known"}


# ---------------------------------------------------------------------------------------
# One check run
# ---------------------------------------------------------------------------------------
class Run:
    def __init__(self, pid, tier, level="proof"):
        self.pid = pid
        self.tier = tier
        self.level = level
        self.seed = int(os.environ.get("VERIF_SEED", "0") or 0)
        self.t0 = time.time()
        self.work = BUILD / pid
        self.work.mkdir(parents=True, exist_ok=True)
        for old in (VERIF / "replays").glob(pid + "-*.json") if (VERIF / "replays").exists() else []:
            try:
                old.unlink()
            except OSError:
                pass
        self.known = load_known(pid)
        self.known_hit = {}
        self.viol = []          # (key, what, replay_path, found_input)
        self.cov = {"evaluations": 0, "distinct_nontrivial": 0, "rule": "", "samples": [],
                    "obligations": 0, "discharged": 0, "checker_cmd": "", "trusted_base": []}
        self.assumptions = []
        self._distinct = set()
        self.notes = []

    # ---- case accounting
    def count(self, case_canon, nontrivial=True):
        self.cov["evaluations"] += 1
        if nontrivial:
            h = hashlib.blake2b(repr(case_canon).encode(), digest_size=8).digest()
            self._distinct.add(h)

    def sample(self, obj, maxn=6):
        if len(self.cov["samples"]) < maxn:
            self.cov["samples"].append(obj)

    def hist(self, name, key, n=1):
        d = self.cov.setdefault(name, {})
        d[str(key)] = d.get(str(key), 0) + n

    # ---- violations
    def violation(self, key, what, replay, found_input=True):
        """key: finding key (specific input class / site).  replay: JSON-able object."""
        if key in self.known:
            if key not in self.known_hit:
                self.known_hit[key] = what
            return False
        for k, w, _, _ in self.viol:
            if k == key:
                return True
        rp = VERIF / "replays"
        rp.mkdir(exist_ok=True)
        safe = re.sub(r"[^A-Za-z0-9_.-]+", "_", key)[:80]
        path = rp / ("%s-%s-%d.json" % (self.pid, safe, self.seed))
        obj = {"property": self.pid, "key": key, "what": what, "seed": self.seed, "tier": self.tier,
               "found_failing_input": bool(found_input), "replay": replay,
               "how_to_rerun": "cd /verif && VERIF_SEED=%d ./check %s --tier %s   (or ./check %s --replay %s)" % (
                   self.seed, self.pid, self.tier, self.pid, path)}
        path.write_text(json.dumps(obj, indent=1, default=str))
        self.viol.append((key, what, str(path), found_input))
        return True

    # ---- static part
    def static_part(self, need_make=True):
        """make + source scan + Print Assumptions of every property theorem."""
        tb = ["Coq 8.16.1 kernel (coqc, vm_compute; no native_compute)",
              "hand-written Gallina model of the anchored mechanism (coq/%s), tied to /repo by the correspondence harness harness/%s.py" % (self.pid, self.pid.lower())]
        self.cov["trusted_base"] = tb
        self.cov["checker_cmd"] = "make -C /verif/coq (coqc, full .vo) ; coqc Print Assumptions on Properties/%s.v" % self.pid
        if need_make:
            ok, log = coq_make()
            if not ok:
                self.cov["obligations"] = max(1, len(property_theorems(self.pid)))
                self.cov["discharged"] = 0
                (self.work / "make.log").write_text(log)
                self.violation("coq-build", "the Coq development no longer builds",
                               {"theorem_or_correspondence": "make -C coq", "log_tail": log[-3000:]}, found_input=False)
                return False
        bad = forbidden_scan()
        if bad:
            self.violation("forbidden-constructs", "Admitted/Axiom/... found in the development",
                           {"theorem_or_correspondence": "source scan", "hits": bad[:50]}, found_input=False)
        n, okc, details, raw = check_assumptions(self.pid, self.work)
        self.cov["obligations"] += n
        self.cov["discharged"] += okc
        self.cov["theorems"] = details
        if n == 0 or okc != n:
            self.violation("assumptions", "property theorems not all closed/compiled",
                           {"theorem_or_correspondence": "Properties/%s.v" % self.pid, "details": details, "raw": raw[-2000:]},
                           found_input=False)
            return False
        return True

    def obligation(self, name, ok, info=None):
        """A generated (reflective) proof obligation re-checked on this run."""
        self.cov["obligations"] += 1
        if ok:
            self.cov["discharged"] += 1
        gl = self.cov.setdefault("generated_obligations", [])
        if len(gl) < 60 or not ok:
            gl.append({"name": name, "ok": bool(ok), **(info or {})})

    # ---- finish
    def finish(self):
        self.cov["distinct_nontrivial"] = len(self._distinct)
        wall = time.time() - self.t0
        ev = {"property_id": self.pid, "tier": self.tier, "seed": self.seed, "level": self.level,
              "coverage": self.cov, "assumptions": self.assumptions, "wall_s": round(wall, 2),
              "violations": len(self.viol),
              "known_findings_matched": sorted(self.known_hit),
              "notes": self.notes}
        (VERIF / "evidence").mkdir(exist_ok=True)
        (VERIF / "evidence" / (self.pid + ".json")).write_text(json.dumps(ev, indent=1, default=str) + "\n")
        for k, w in sorted(self.known_hit.items()):
            print("KNOWN-FINDING: property=%s %s [%s]" % (self.pid, w, k))
        for key, what, path, found in self.viol:
            print("VIOLATION property=%s replay=%s %s%s" % (self.pid, path, what.replace("\n", " ")[:160],
                                                              "" if found else " no-failing-input-found"))
        print("%s %s tier=%s seed=%d evaluations=%d distinct_nontrivial=%d obligations=%d/%d wall=%.1fs" % (
            self.pid, "FAIL" if self.viol else "OK", self.tier, self.seed, self.cov["evaluations"],
            self.cov["distinct_nontrivial"], self.cov["discharged"], self.cov["obligations"], wall))
        sys.stdout.flush()
        return 1 if self.viol else 0


# ---------------------------------------------------------------------------------------
# Gallina literal helpers
# ---------------------------------------------------------------------------------------
def zlit(n):
    n = int(n)
    return "(%d)" % n if n < 0 else "%d" % n


def clist(items):
    return "[" + "; ".join(items) + "]"


def cbool(b):
    return "true" if b else "false"


def copt(x, f=str):
    return "None" if x is None else "(Some %s)" % f(x)


def run_impl_worker(script, payload, timeout=1200, mem_kb=6000000):
    """Run a harness worker (fresh interpreter importing amoco from /repo) with JSON in/out."""
    cmd = "ulimit -v %d; exec %s %s" % (mem_kb, PY, script)
    p = subprocess.run(["bash", "-c", cmd], input=json.dumps(payload), env=impl_env(), cwd=str(VERIF),
                       stdout=subprocess.PIPE, stderr=subprocess.PIPE, text=True, timeout=timeout)
    return p.returncode, p.stdout, p.stderr
