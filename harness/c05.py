# C05 — a decoded instruction is determined by the bytes it consumes.
# Static: theorems of coq/Properties/C05.v over Amoco.Dec.Disasm (returned bytes are a non-empty prefix of the
# input; for fixed-length instruction sets the outcome only depends on the fetch window).
# Tie: regenerated per-tree obligations (hypotheses of the theorems on the live tables) + trace-driven
# correspondence of the skeleton.  Search oracle: d(b), d(b[:n]), d(b[:n]+t), d(b[:maxlen]).
import json
import random

import common
import isa
import c04
import decmodel
from common import zlit

LEVEL = "proof"


def same(o1, o2):
    return o1 == o2


def hookname(o, dis, specs):
    try:
        for s in specs:
            if s.format == o["spec"]:
                return s.hook.__name__
    except Exception:
        pass
    return "?"


def worker(args):
    name, k, seed, nrandom, nspec, nmodel = args
    import amoco.arch.core as core
    cpus, _ = isa.load_all()
    decmodel.install(core)
    dis = cpus[name].disassemble
    specs, _ = c04.mode_specs(dis, k)
    byfmt = {}
    for s in specs:
        byfmt.setdefault(s.format, s)
    rng = random.Random(seed)
    ml = dis.maxlen
    res = {"name": name, "mode": k, "n": 0, "decoded": 0, "checks": 0, "viol": {}, "model": [], "samples": []}

    last_h = [None]

    def d(b):
        # no reset of the decoder's private state: whatever earlier calls (including junk that is not an instruction)
        # left behind is part of what the next call sees
        last_h[0] = isa.junk_history(dis, (name, k))
        return c04.outcome(lambda: dis(b))

    def report(kind, o, b, extra):
        if last_h[0]:
            extra = dict(extra, history=[last_h[0]])
        s = byfmt.get(o.get("spec")) if isinstance(o, dict) else None
        hk = s.hook.__name__ if s is not None else "?"
        key = "%s|%s|%s" % (name, hk, kind)
        if key not in res["viol"]:
            res["viol"][key] = dict({"isa": name, "mode": k, "kind": kind, "bytes": b.hex(), "decoded": o}, **extra)

    def pair_inputs():
        """short spec A accepted on X[:a] while a longer, earlier spec B is compatible with those bytes:
        X[:a] followed by the rest of X is the tail that may change the outcome (encoding not prefix-free)"""
        e = dis.endian()
        H = []
        for s in specs:
            n = s.fix.size // 8
            H.append((s.fix.ival.to_bytes(n, "little")[::e], s.mask.ival.to_bytes(n, "little")[::e]))
        prng = random.Random(12345)
        out = []
        for ia in range(len(specs)):
            fa, ma = H[ia]
            a = len(fa)
            for ib in range(ia):
                fb, mb_ = H[ib]
                if len(fb) <= a or not all(((fa[i] ^ fb[i]) & ma[i] & mb_[i]) == 0 for i in range(a)):
                    continue
                for _ in range(6):
                    x = bytearray(prng.getrandbits(8) for _ in range(len(fb)))
                    for i in range(len(fb)):
                        x[i] = (x[i] & ~mb_[i] & 0xff) | fb[i]
                    for i in range(a):
                        x[i] = (x[i] & ~ma[i] & 0xff) | fa[i]
                    out.append(("pair", bytes(x[:a]), bytes(x[a:]) + bytes(prng.getrandbits(8) for _ in range(ml))))
        return out

    def modrm_sweep():
        """x86 / x64: every specification followed by each class of ModRM / SIB / displacement bytes (distinct filler bytes,
        so that a byte taken from the wrong position shows), bare and behind a prefix, complete and cut one byte short"""
        out = []
        if name not in ("x86_x86", "x64_x64"):
            return out
        e = dis.endian()
        forms = [bytes([0x04, 0x25]), bytes([0x44, 0x24]), bytes([0x84, 0x8D]), bytes([0x05]), bytes([0x45]), bytes([0x85]), bytes([0xC1]),
                 bytes([0x04, 0x8D]), bytes([0x40]), bytes([0x00])]
        filler = bytes([0x11, 0x22, 0x33, 0x44, 0x55, 0x66, 0x77, 0x88, 0x99, 0xAB, 0xCD, 0xEF, 0x13, 0x57])
        for s in specs:
            fixed = c04.spec_bytes(rng, s, e, ml)
            nfix = max(1, (s.mask.ival.bit_length() + 7) // 8) if s.size == 0 else len(fixed)
            op = fixed[:nfix]
            for f in rng.sample(forms, 3):
                f2 = bytes([(f[0] & 0xC7) | (rng.randrange(8) << 3)]) + f[1:]
                body = op + f2 + filler
                pre = b""
                c = rng.random()
                if c < 0.3:
                    pre = bytes([rng.choice(c04.X86_PREFIXES)])
                elif c < 0.5 and name == "x64_x64":
                    pre = bytes([0x40 + rng.randrange(16)])
                out.append(("modrm", pre + body))
        # operand-size / address-size / repeat prefixes (and REX) change operand and immediate widths: every specification is
        # reached behind each, followed by distinct filler bytes
        for s in specs:
            head = c04.spec_bytes(rng, s, e, ml)
            for pf in ([b"\x66", b"\x67", b"\x66\x67", b"\xf3"] + ([b"\x48", b"\x41", b"\x66\x4c"] if name == "x64_x64" else [])):
                out.append(("prefix-sweep", pf + head + filler))
        return out

    with isa.ModeCtx(dis, k):
        inputs = [(kd, b, None) for kd, b in c04.gen_inputs(rng, name, dis, specs, nrandom, nspec)] + pair_inputs()
        inputs += [(kd, b, None) for kd, b in modrm_sweep()]
        inputs += [("word-sweep", b, None) for b in c04.word_sweep(name, specs, ml, seed, 8)]
        inputs += [("leb-sweep", b, None) for b in c04.leb_sweep(rng, specs, ml)]
        for kind, b, forced in inputs:
            res["n"] += 1
            o = d(b)
            if o is None or "raised" in o:
                continue
            res["decoded"] += 1
            ib = bytes.fromhex(o["bytes"])
            n = len(ib)
            if not (1 <= n <= len(b)) or ib != b[:n]:
                report("not-a-prefix", o, b, {"consumed": n})
                continue
            res["checks"] += 1
            if n > 1:
                ot = d(b[:n - 1])
                if ot is not None and "raised" not in ot and len(bytes.fromhex(ot["bytes"])) >= n:
                    report("decodes-beyond-input", ot, b[:n - 1], {"consumed": len(bytes.fromhex(ot["bytes"])), "supplied": n - 1})
            o2 = d(b[:n])
            if not same(o, o2):
                report("exact-bytes-differ", o, b, {"consumed": n, "redecoded": o2})
            for t in ([forced] if forced else []) + [bytes(rng.getrandbits(8) for _ in range(rng.choice([1, 3, ml]))), b"\x00" * ml, b"\xff" * ml]:
                o3 = d(b[:n] + t)
                if not same(o, o3):
                    report("tail-dependent", o, b, {"consumed": n, "tail": t.hex(), "redecoded": o3})
                    break
            if n <= ml:
                o4 = d(b[:ml])
                if not same(o, o4):
                    report("window-dependent", o, b, {"consumed": n, "redecoded": o4})
            if len(res["samples"]) < 1 and n < len(b):
                res["samples"].append({"isa": name, "mode": k, "bytes": b.hex(), "consumed": n, "mnemonic": o["mnemonic"]})
        ids = {id(s): n for n, s in enumerate(specs)}
        for kind, b, _f in inputs[:nmodel]:
            isa.reset_pending(dis)
            out, tr = decmodel.traced_call(dis, b)
            isa.reset_pending(dis)
            if out[2] is not None and out[2].pfx == "xdata":
                continue
            if out[0] == 2 and tr and tr[-1][2] == "ok":
                continue
            res["model"].append(decmodel.coq_case(b, out, tr, ids))
    return res


def gen_hyp_file(nm, dis, k, specs):
    txt = c04.gen_tree_file(nm, dis, k, specs)
    fixedlen = all(s.size != 0 for s in specs) and not any(s.pfx for s in specs)
    txt += "Lemma %s_spec_pos : forallb (fun s => 8 <=? sbits s) specs = true. Proof. vm_compute. reflexivity. Qed.\nPrint Assumptions %s_spec_pos.\n" % (nm, nm)
    return txt, fixedlen


def check(run):
    quick = run.tier == "quick"
    run.cov["rule"] = ("(cpu module/mode, byte string): random and spec-derived inputs with tails (as C04); for each decoded instruction of n "
                       "bytes: bytes==b[:n], d(b[:n]), d(b[:n]+t) for three tails, d(b[:maxlen]); distinct by bytes; non-trivial when an "
                       "instruction is decoded")
    run.static_part()
    cpus, failed = isa.load_all()
    # regenerated obligations: hypotheses of the theorems hold on the live tables
    texts, info = [], {}
    for name, cpu in sorted(cpus.items()):
        dis = cpu.disassemble
        for k in range(len(dis.specs)):
            specs, _ = c04.mode_specs(dis, k)
            nm = "%s_m%d" % (name, k)
            txt, fixedlen = gen_hyp_file(nm, dis, k, specs)
            texts.append((nm, txt))
            info[nm] = {"specs": len(specs), "fixed_length_no_prefix": fixedlen}
    res = common.coq_eval_many(run.work / "gen", texts, timeout=900)
    for nm, (rc, out) in sorted(res.items()):
        ok = rc == 0 and out.count("Closed under the global context") == 2
        run.obligation("tree_ok+spec_pos " + nm, ok, info[nm])
        if not ok:
            run.violation("hypotheses|" + nm, "live table of %s no longer satisfies tree_ok / spec_pos (hypotheses of C05 theorems)" % nm,
                          {"theorem_or_correspondence": "generated obligations %s_tree_ok, %s_spec_pos" % (nm, nm), "coq_output": out[-800:]}, found_input=False)
    import multiprocessing as mp
    tasks = []
    for name, cpu in sorted(cpus.items()):
        dis = cpu.disassemble
        for k in range(len(dis.specs)):
            reps = 1 if quick else 6
            for r in range(reps):
                tasks.append((name, k, run.seed * 4999 + 7 * len(tasks), 200 if quick else 4000, 200 if quick else 10 ** 9, 40 if r == 0 else 0))
    with mp.get_context("fork").Pool(14) as pool:
        results = pool.map(worker, tasks, chunksize=1)
    groups = {}
    for r in results:
        run.cov["evaluations"] += r["n"]
        run.hist("decoded_by_isa", "%s_m%d" % (r["name"], r["mode"]), r["decoded"])
        run._distinct.update(("%s%d%d" % (r["name"], r["mode"], j)).encode() for j in range(r["checks"]))
        for s in r["samples"]:
            run.sample(s, 8)
        for key, v in sorted(r["viol"].items()):
            run.violation(key, "decoded instruction is not determined by its consumed bytes (%s) in %s" % (v["kind"], v["isa"]), v)
        if r["model"]:
            groups.setdefault((r["name"], r["mode"]), []).extend(r["model"])
    texts = []
    for (name, k), rows in sorted(groups.items()):
        dis = cpus[name].disassemble
        specs, _ = c04.mode_specs(dis, k)
        nm = "c05_%s_m%d" % (name, k)
        txt, _ = decmodel.coq_file(nm, dis, k, specs, rows)
        texts.append((nm, txt))
    res = common.coq_eval_many(run.work / "model", texts, timeout=900)
    total = 0
    for nm, (rc, out) in sorted(res.items()):
        lists = common.parse_nat_list(out)
        if rc != 0 or len(lists) != 1:
            run.violation("model-eval|" + nm, "model evaluation failed", {"theorem_or_correspondence": "Dec correspondence " + nm, "output": out[-1200:]}, found_input=False)
            continue
        key = tuple(nm[4:].rsplit("_m", 1))
        rows = groups[(key[0], int(key[1]))]
        total += len(rows)
        for idx in lists[0][:2]:
            run.violation("model-impl-correspondence|" + nm[4:], "call skeleton model and disassembler.__call__ disagree",
                          {"theorem_or_correspondence": "Amoco.Dec.Corr.check_dcase", "case": rows[idx][:600]}, found_input=False)
    run.cov["model_cases_evaluated_in_coq"] = total
    run.cov["traces_validated_against_impl"] = total
    run.cov["trusted_base"] += ["harness/decmodel.py wrapper around ispec.decode; live tree dump (as C04)"]
    run.assumptions += ["locality of variable-length setup functions (x86/x64 ModRM/imm readers, wasm/dwarf LEB128, msp430 tails) and prefix-freeness of "
                        "mixed-length tables are hypotheses tested by the d(b)/d(b[:n])/d(b[:n]+t) oracle, not proved"]
    return run


def replay(path):
    obj = json.load(open(path))["replay"]
    cpus, _ = isa.load_all()
    dis = cpus[obj["isa"]].disassemble
    b = bytes.fromhex(obj["bytes"])
    with isa.ModeCtx(dis, obj["mode"]):
        def d(x):
            for h in obj.get("history", []):
                try:
                    dis(bytes.fromhex(h))
                except Exception:
                    pass
            return c04.outcome(lambda: dis(x))
        o = d(b)
        n = obj.get("consumed", 0)
        outs = {"d(b)": o, "d(b[:n])": d(b[:n]), "d(b[:maxlen])": d(b[:dis.maxlen])}
        if "tail" in obj:
            outs["d(b[:n]+t)"] = d(b[:n] + bytes.fromhex(obj["tail"]))
    print(json.dumps(outs, indent=1))
    return 0 if all(v == o for v in outs.values()) else 1
