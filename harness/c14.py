# C14 — executable-format parsers report what the file encodes.
# Static: coq/Properties/C14.v (record/table/string codecs for both classes and byte orders, address -> offset queries
# of Elf/PE/MachO, Intel-HEX / S-record codecs with checksum rejection, HEX address composition).
# Tie: (i) regenerated obligations: the model's ELF layout tables equal the layouts of the live amoco classes;
# (ii) the model's parser evaluated (vm_compute) on the same synthesised ELF files as Elf(...), field by field;
# (iii) PE/Mach-O address queries and HEX/SREC lines, model vs implementation; (iv) independent struct-based readers
# (harness/elfgen.py, fmtgen.py; cross-checked with readelf / objdump / llvm-readobj) vs amoco on synthesised files, the
# shipped samples and field-level variations of them.
import glob
import io
import json
import os
import random
import re
import struct
import subprocess

import common
import isa
import elfgen as EG
import fmtgen as FG
from common import zlit, clist

LEVEL = "proof"
SAMPLES = str(common.REPO / "tests" / "samples")


class NamedIO(io.BytesIO):
    name = "verif-input"


def dataio(b):
    from amoco.system.core import DataIO
    return DataIO(NamedIO(b))


def blist(b):
    return "[" + ";".join(str(x) for x in b) + "]"


def olit(v):
    return "None" if v is None else "(Some %s)" % zlit(v)


# ------------------------------------------------------------------------------------------------ ELF
def elf_observe(img):
    """what amoco reports for an ELF image"""
    from amoco.system import elf
    e = elf.Elf(dataio(img))
    O = {"obj": e}
    O["ehdr"] = {k: getattr(e.Ehdr, k) for k in EG.EHDR_FIELDS}
    O["ident"] = [e.Ehdr.e_ident.ELFMAG0] + list(e.Ehdr.e_ident.ELFMAG) + [e.Ehdr.e_ident.EI_CLASS, e.Ehdr.e_ident.EI_DATA,
                                                                             e.Ehdr.e_ident.EI_VERSION, e.Ehdr.e_ident.EI_OSABI,
                                                                             e.Ehdr.e_ident.EI_ABIVERSION]
    O["phdr"] = [{k: getattr(p, k) for k in EG.PHDR_FIELDS} for p in e.Phdr]
    O["shdr"] = [{k: getattr(s, k) for k in EG.SHDR_FIELDS} for s in e.Shdr]
    O["names"] = [s.name for s in e.Shdr]
    O["functions"] = dict(e.functions)
    O["variables"] = dict(e.variables)
    O["entry"] = e.entrypoints
    return O


def elf_compare(R, O, rng, nq=12, kp=None, ks=None):
    """reference reading R (elfgen.read_elf) vs amoco observation O; returns [(key, detail)]"""
    out = []
    e = O["obj"]
    for k, v in R["ehdr"].items():
        if O["ehdr"][k] != v:
            out.append(("elf|ehdr|" + k, "Ehdr.%s reported %r, file encodes %r" % (k, O["ehdr"][k], v)))
    if O["ident"] != R["ident"][:9]:
        out.append(("elf|ident", "e_ident reported %r, file has %r" % (O["ident"], R["ident"][:9])))
    if O["entry"] != [R["ehdr"]["e_entry"]]:
        out.append(("elf|entry", "entrypoints %r, e_entry is %#x" % (O["entry"], R["ehdr"]["e_entry"])))
    wantp = [p for p in R["phdr"] if kp is None or p["p_type"] in kp or 0x60000000 <= p["p_type"] <= 0x7FFFFFFF]
    if len(O["phdr"]) != len(wantp):
        out.append(("elf|phdr|count", "%d program headers reported, file encodes %d (types %s)" % (
            len(O["phdr"]), len(wantp), [hex(p["p_type"]) for p in R["phdr"]])))
    else:
        for i, (a, b) in enumerate(zip(O["phdr"], wantp)):
            for k, v in b.items():
                if a[k] != v:
                    out.append(("elf|phdr|" + k, "Phdr[%d].%s reported %r, file encodes %r" % (i, k, a[k], v)))
    wants = [(i, s) for i, s in enumerate(R["shdr"]) if ks is None or s["sh_type"] in ks or 0x60000000 <= s["sh_type"] <= 0x8FFFFFFF]
    if len(O["shdr"]) != len(wants):
        out.append(("elf|shdr|count", "%d section headers reported, file encodes %d (types %s)" % (
            len(O["shdr"]), len(wants), [hex(s["sh_type"]) for s in R["shdr"]])))
    else:
        for j, (a, (i, b)) in enumerate(zip(O["shdr"], wants)):
            for k, v in b.items():
                if a[k] != v:
                    out.append(("elf|shdr|" + k, "Shdr[%d].%s reported %r, file encodes %r" % (i, k, a[k], v)))
            if R["names"] is not None and O["names"][j] != R["names"][i]:
                out.append(("elf|section-name", "section %d named %r, string table says %r" % (i, O["names"][j], R["names"][i])))
        # symbols of .symtab
        if R["names"] is not None and len(wants) == len(R["shdr"]):
            for si, syms in R["symbols"].items():
                if R["names"][si] != ".symtab":
                    continue
                for t, got, label in ((EG.STT_FUNC, O["functions"], "functions"), (EG.STT_OBJECT, O["variables"], "variables")):
                    want = {}
                    for y in syms:
                        if (y["st_info"] & 15) == t and y["st_value"]:
                            want.setdefault(y["st_value"], []).append(y)
                    got2 = {a: v for a, v in got.items() if isinstance(v, tuple)}
                    if set(got2) != set(want):
                        out.append(("elf|symbols|" + label, "%s at %s reported, symbol table has %s" % (
                            label, sorted(map(hex, got2))[:6], sorted(map(hex, want))[:6])))
                        continue
                    for a, v in got2.items():
                        if not any(v == (y["name"], y["st_size"], y["st_info"], y["st_shndx"]) for y in want[a]):
                            out.append(("elf|symbols|" + label + "-entry", "%s[%#x] = %r, symbol table has %r" % (
                                label, a, v, [(y["name"], y["st_size"], y["st_info"], y["st_shndx"]) for y in want[a]])))
    # segment / section contents
    img = R["image"]
    for p, rp in zip(e.Phdr, wantp) if len(O["phdr"]) == len(wantp) else []:
        if rp["p_type"] == EG.PT_LOAD:
            d = e.readsegment(p)
            w = img[rp["p_offset"]:rp["p_offset"] + rp["p_filesz"]].ljust(rp["p_memsz"], b"\0")
            if bytes(d) != w:
                out.append(("elf|readsegment", "readsegment differs from file bytes + zero fill (offset %#x filesz %d memsz %d)" % (
                    rp["p_offset"], rp["p_filesz"], rp["p_memsz"])))
    # address queries
    queries = []
    loads = [p for p in R["phdr"] if p["p_type"] == EG.PT_LOAD]
    for _ in range(nq):
        if not loads:
            break
        p = rng.choice(loads)
        c = rng.random()
        if c < 0.15:
            a = p["p_vaddr"] + p["p_filesz"] + rng.randrange(0, max(1, p["p_memsz"] - p["p_filesz"]) + 2)
        elif c < 0.3:
            a = p["p_vaddr"] + rng.choice([0, max(0, p["p_filesz"] - 1), -1, p["p_filesz"]])
        else:
            a = p["p_vaddr"] + rng.randrange(0, max(1, p["p_filesz"]))
        if a < 0:
            continue
        w = EG.ref_offset(R, a)
        try:
            g = e.getfileoffset(a)
        except Exception as x:
            g = "raised %r" % (x,)
        queries.append((a, g))
        if g != w:
            out.append(("elf|getfileoffset", "getfileoffset(%#x) = %r, the program headers map it to %r" % (a, g, w)))
            continue
        # address -> section / segment
        try:
            s, off, base = e.getinfo(a)
        except Exception as x:
            out.append(("elf|getinfo|raised", "getinfo(%#x) raised %r" % (a, x)))
            continue
        if w is None:
            if s is not None:
                out.append(("elf|getinfo", "getinfo(%#x) located an address that is not file-backed" % a))
        else:
            if s is None or base + off != a:
                out.append(("elf|getinfo", "getinfo(%#x) = (%r, %r, %r)" % (a, s is not None, off, base)))
            elif hasattr(s, "sh_addr"):
                idx = [i for i, x in enumerate(e.Shdr) if x is s]
                secs = EG.ref_section(R, a)
                if len(wants) == len(R["shdr"]) and (not idx or idx[0] not in secs):
                    out.append(("elf|getinfo|section", "getinfo(%#x) names section %r, the file has it in %r" % (a, idx, secs)))
    O["queries"] = [(a, g) for a, g in queries if g is None or isinstance(g, int)]
    return out


def elf_coq_case(R, O):
    """Coq elf_case literal from the file and amoco's observation (canonical field orders)"""
    eh = [O["ehdr"][k] for k in EG.EHDR_FIELDS]
    ph = [[p[k] for k in EG.PHDR_FIELDS] for p in O["phdr"]]
    sh = [[s[k] for k in EG.SHDR_FIELDS] for s in O["shdr"]]
    names = [list(n.encode("latin1")) for n in O["names"]]
    e = O["obj"]
    st = [s for s in e.Shdr if s.name == ".symtab"]
    if st:
        S = st[0]
        syms = e.readsection(S) or []
        symtab = (S.sh_offset, S.sh_size, S.sh_entsize)
        symrecs = [[getattr(y, k) for k in EG.SYM_FIELDS] for y in syms]
    else:
        symtab, symrecs = (0, 0, 1), []
    return ("{| ec_file := %s; ec_ehdr := %s; ec_phdr := %s; ec_shdr := %s; ec_names := %s; ec_symtab := (%s, %s, %s); "
            "ec_syms := %s; ec_queries := %s |}" % (
                blist(R["image"]), clist(map(zlit, eh)), clist([clist(map(zlit, p)) for p in ph]),
                clist([clist(map(zlit, s)) for s in sh]), clist([blist(n) for n in names]),
                zlit(symtab[0]), zlit(symtab[1]), zlit(symtab[2]), clist([clist(map(zlit, y)) for y in symrecs]),
                clist(["(%s, %s)" % (zlit(a), olit(g)) for a, g in O["queries"]])))


def live_layouts():
    """layouts of the live amoco ELF classes: (widths in file order, permutation to the canonical field order)"""
    from amoco.system import elf
    out = {}
    for x64 in (False, True):
        for cname, canon in (("Phdr", EG.PHDR_FIELDS), ("Shdr", EG.SHDR_FIELDS), ("Sym", EG.SYM_FIELDS)):
            o = getattr(elf, cname)(None, 0, None, x64)
            names = [f.name for f in o.fields]
            ws = [f.size() for f in o.fields]
            out[(cname, x64)] = (ws, [names.index(n) for n in canon])
    rng = random.Random(0)
    for cls in (32, 64):
        s = EG.Synth(rng, cls=cls, order="<", nseg=1)
        e = elf.Elf(dataio(s.image))
        out[("Ehdr", cls == 64)] = ([f.size() for f in e.Ehdr.fields[1:]], [[f.name for f in e.Ehdr.fields[1:]].index(n) for n in EG.EHDR_FIELDS])
    return out


def known_types():
    from amoco.system import elf
    from amoco.system.structs import Consts
    return sorted(Consts.All["p_type"].keys()), sorted(Consts.All["sh_type"].keys())


def readelf_check(path, R):
    """cross-check of the reference reader against GNU readelf (validation of the reference)"""
    try:
        out = subprocess.run(["readelf", "-h", "-l", "-W", path], capture_output=True, text=True, timeout=30).stdout
    except Exception:
        return None
    pr = []
    m = re.search(r"Entry point address:\s+0x([0-9a-f]+)", out)
    if m and int(m.group(1), 16) != R["ehdr"]["e_entry"]:
        pr.append("entry")
    for fld, pat in (("e_phnum", r"Number of program headers:\s+(\d+)"), ("e_shnum", r"Number of section headers:\s+(\d+)"),
                     ("e_shstrndx", r"Section header string table index:\s+(\d+)"), ("e_phoff", r"Start of program headers:\s+(\d+)"),
                     ("e_shoff", r"Start of section headers:\s+(\d+)")):
        m = re.search(pat, out)
        if m and int(m.group(1)) != R["ehdr"][fld]:
            pr.append(fld)
    rows = re.findall(r"^\s+(\S+)\s+0x([0-9a-f]+) 0x([0-9a-f]+) 0x([0-9a-f]+) 0x([0-9a-f]+) 0x([0-9a-f]+) ", out, flags=re.M)
    if len(rows) != len(R["phdr"]):
        pr.append("phdr count %d/%d" % (len(rows), len(R["phdr"])))
    else:
        for r, p in zip(rows, R["phdr"]):
            if [int(x, 16) for x in r[1:]] != [p["p_offset"], p["p_vaddr"], p["p_paddr"], p["p_filesz"], p["p_memsz"]]:
                pr.append("phdr row")
    return pr


def elf_part(run, quick):
    rng = random.Random(run.seed * 7919 + 14)
    kp, ks = known_types()
    # (i) regenerated layout obligations
    lay = live_layouts()
    lem = []
    for (cname, x64), (ws, perm) in sorted(lay.items()):
        b = "true" if x64 else "false"
        wl = "[" + ";".join(str(w) for w in ws) + "]%nat"
        pl = "[" + ";".join(str(p) for p in perm) + "]%nat"
        if cname == "Ehdr":
            stmt = "ehdr_ws %s = %s /\\ %s = [0;1;2;3;4;5;6;7;8;9;10;11;12]%%nat" % (b, wl, pl)
        elif cname == "Phdr":
            stmt = "phdr_ws %s = %s /\\ phdr_perm %s = %s" % (b, wl, b, pl)
        elif cname == "Shdr":
            stmt = "shdr_ws %s = %s /\\ %s = [0;1;2;3;4;5;6;7;8;9]%%nat" % (b, wl, pl)
        else:
            stmt = "sym_ws %s = %s /\\ sym_perm %s = %s" % (b, wl, b, pl)
        lem.append(("live_%s_%s" % (cname, "64" if x64 else "32"), stmt))
    text = ("From Coq Require Import ZArith List.\nImport ListNotations.\nRequire Import Amoco.C14.Model.\n" +
            "".join("Lemma %s : %s.\nProof. vm_compute. split; reflexivity. Qed.\n" % (n, s) for n, s in lem))
    res = common.coq_eval_many(run.work / "lay", [("layouts", text)])
    rc, out = res["layouts"]
    for n, s in lem:
        run.obligation("Amoco.C14 " + n, rc == 0, {"statement": s})
    if rc != 0:
        run.violation("regenerated|elf-layouts", "the layout of a live ELF structure class differs from the gABI table of the model",
                      {"theorem_or_correspondence": "generated lemmas live_<class>_<32|64> (harness/c14.py live_layouts)", "output": out[-1500:],
                       "layouts": {"%s/%s" % k: v for k, v in lay.items()}}, found_input=False)
    # (ii)+(iv) synthesised images
    rows, meta = [], []
    n_img = 260 if quick else 6000
    n_coq = 160 if quick else 1200
    for n in range(n_img):
        small = n < n_coq
        exotic = rng.random() < 0.3
        s = EG.Synth(rng, nseg=rng.randrange(1, 3) if small else None, exotic=exotic)
        if small and len(s.image) > 2600:
            small = False
        img = s.image
        run.count(("elf", img), nontrivial=len(s.phdrs) >= 2 and len(s.shdrs) >= 2)
        run.hist("elf_class_order", "%d%s" % (s.cls, s.order))
        run.hist("elf_tables", "ph%d sh%d sym%d" % (min(len(s.phdrs), 6), min(len(s.shdrs) // 3 * 3, 12), min(len(s.syms), 6)))
        R = EG.read_elf(img)
        R["image"] = img
        if R["ehdr"] != s.ehdr or R["phdr"] != s.phdrs or R["shdr"] != s.shdrs or R["names"] != s.names:
            run.violation("harness|elf-reference", "reference reader disagrees with the synthesiser's description", {"image": img.hex()})
            continue
        if n < 6:
            p = run.work / ("synth%d.elf" % n)
            p.write_bytes(img)
            pr = readelf_check(str(p), R)
            run.cov["readelf_crosschecks"] = run.cov.get("readelf_crosschecks", 0) + 1
            if pr:
                run.violation("harness|elf-reference-vs-readelf", "reference reader disagrees with readelf: %s" % pr, {"image": img.hex()})
        try:
            O = elf_observe(img)
        except Exception as x:
            run.violation("elf|raised|" + type(x).__name__, "Elf() raised %r on a structurally valid image (%s)" % (x, s.describe()),
                          {"format": "elf", "image": img.hex()})
            continue
        diffs = elf_compare(R, O, rng, kp=set(kp), ks=set(ks))
        for key, detail in diffs[:3]:
            run.violation(key, detail + " [%s]" % s.describe(), {"format": "elf", "image": img.hex(), "describe": s.describe()})
        if run.cov["evaluations"] <= 2:
            run.sample({"format": "elf", "describe": s.describe(), "ehdr": s.ehdr}, 4)
        if small and not diffs:
            rows.append(elf_coq_case(R, O))
            meta.append(img)
    shards = [rows[i:i + 20] for i in range(0, len(rows), 20)]
    texts = [("elf_%03d" % i, "From Coq Require Import ZArith List.\nImport ListNotations.\nRequire Import Amoco.C14.Model.\nOpen Scope Z_scope.\n"
              "Definition kp : list Z := %s.\nDefinition ks : list Z := %s.\nDefinition cases : list elf_case := [\n%s\n].\n"
              "Eval vm_compute in (bad_from (check_elf kp ks) 0 cases).\n" % (clist(map(zlit, kp)), clist(map(zlit, ks)), ";\n".join(sh)))
             for i, sh in enumerate(shards)]
    res = common.coq_eval_many(run.work / "elf", texts)
    ok = 0
    for i, sh in enumerate(shards):
        rc, out = res["elf_%03d" % i]
        lists = common.parse_nat_list(out)
        if rc != 0 or len(lists) != 1:
            run.violation("model-eval|elf", "ELF model evaluation failed", {"theorem_or_correspondence": "Amoco.C14.Model.check_elf shard %d" % i,
                                                                              "output": out[-800:]}, found_input=False)
            continue
        ok += len(sh)
        for k in lists[0][:2]:
            run.violation("elf|model-impl-correspondence", "Elf() reports something else than the byte-level model reads from the same file",
                          {"theorem_or_correspondence": "Amoco.C14.Model.check_elf", "format": "elf", "image": meta[i * 20 + k].hex()}, found_input=False)
    run.cov["elf_files_in_coq"] = ok
    run.cov["traces_validated_against_impl"] = run.cov.get("traces_validated_against_impl", 0) + ok
    # samples and field-level variations
    files = []
    for f in sorted(glob.glob(SAMPLES + "/*/*")):
        try:
            b = open(f, "rb").read()
        except Exception:
            continue
        if b[:4] == b"\x7fELF":
            files.append((f, b))
    nvar = 6 if quick else 60
    for f, b in files:
        R0 = EG.read_elf(b)
        R0["image"] = b
        pr = readelf_check(f, R0)
        run.cov["readelf_crosschecks"] = run.cov.get("readelf_crosschecks", 0) + 1
        if pr:
            run.violation("harness|elf-reference-vs-readelf", "reference reader disagrees with readelf on %s: %s" % (f, pr), {"file": f})
            continue
        variants = [("", b)]
        F = EG.fmts(R0["class"], R0["order"])
        for k in range(nvar):
            m = bytearray(b)
            what = []
            for _ in range(rng.randrange(1, 4)):
                c = rng.random()
                if c < 0.3:
                    fld = rng.choice(["e_flags", "e_machine", "e_entry", "e_type"])
                    kind, off, idx = "ehdr", 16, 0
                elif c < 0.65 and R0["phdr"]:
                    fld = rng.choice(["p_flags", "p_align", "p_paddr"])
                    idx = rng.randrange(len(R0["phdr"]))
                    kind, off = "phdr", R0["ehdr"]["e_phoff"] + idx * R0["ehdr"]["e_phentsize"]
                elif R0["shdr"]:
                    fld = rng.choice(["sh_info", "sh_addralign"])
                    idx = rng.randrange(len(R0["shdr"]))
                    kind, off = "shdr", R0["ehdr"]["e_shoff"] + idx * R0["ehdr"]["e_shentsize"]
                else:
                    continue
                fmt, names = F[kind]
                vals = list(struct.unpack_from(fmt, m, off))
                j = names.index(fld)
                width = struct.calcsize(fmt[0] + fmt[1:][j])
                vals[j] = rng.getrandbits(8 * width) if fld != "e_machine" else vals[j]
                if fld == "e_type":
                    vals[j] = rng.choice([1, 2, 3, 4])
                struct.pack_into(fmt, m, off, *vals)
                what.append("%s[%d].%s" % (kind, idx, fld))
            variants.append((",".join(what), bytes(m)))
        for what, img in variants:
            run.count(("elf-sample", f, img[:4096], what), nontrivial=True)
            R = EG.read_elf(img)
            R["image"] = img
            try:
                O = elf_observe(img)
            except Exception as x:
                run.violation("elf|raised|" + type(x).__name__, "Elf() raised %r on %s %s" % (x, os.path.basename(f), what),
                              {"format": "elf", "file": f, "variation": what, "image": img.hex() if len(img) < 20000 else None})
                continue
            for key, detail in elf_compare(R, O, rng, nq=8, kp=set(kp), ks=set(ks))[:3]:
                run.violation(key, detail + " [%s %s]" % (os.path.basename(f), what),
                              {"format": "elf", "file": f, "variation": what, "image": img.hex() if len(img) < 20000 else None})
    run.cov["elf_samples"] = len(files)


# ------------------------------------------------------------------------------------------------ PE
def pe_compare(R, p, rng, nq=10):
    out, queries = [], []
    for k, v in R["coff"].items():
        if getattr(p.NT, k) != v:
            out.append(("pe|coff|" + k, "COFF header %s reported %r, file encodes %r" % (k, getattr(p.NT, k), v)))
    if p.DOS.e_lfanew != R["e_lfanew"]:
        out.append(("pe|dos|e_lfanew", "e_lfanew %r vs %r" % (p.DOS.e_lfanew, R["e_lfanew"])))
    for k, v in R["opt"].items():
        try:
            g = getattr(p.Opt, k)
        except Exception as x:
            g = "raised %r" % (x,)
        if g != v:
            out.append(("pe|opt|" + k, "Optional header %s reported %r, file encodes %r" % (k, g, v)))
    dd = p.Opt.DataDirectories
    if len(dd) != len(R["dirs"]):
        out.append(("pe|dirs|count", "%d data directories reported, file encodes %d" % (len(dd), len(R["dirs"]))))
    for i, (a, z) in enumerate(R["dirs"]):
        d = dd.get(FG.DIRNAMES[i])
        if d is None or (d.RVA, d.Size) != (a, z):
            out.append(("pe|dirs|entry", "data directory %s reported %r, file encodes %r" % (FG.DIRNAMES[i], d and (d.RVA, d.Size), (a, z))))
    if len(p.sections) != len(R["sections"]):
        out.append(("pe|sections|count", "%d sections reported, file encodes %d" % (len(p.sections), len(R["sections"]))))
        return out, queries
    for i, (a, b) in enumerate(zip(p.sections, R["sections"])):
        for k, v in b.items():
            g = getattr(a, k)
            if g != v:
                out.append(("pe|section|" + k, "section %d %s reported %r, file encodes %r" % (i, k, g, v)))
    base = R["opt"]["ImageBase"]
    if p.entrypoints[:1] != [base + R["opt"]["AddressOfEntryPoint"]]:
        out.append(("pe|entry", "entrypoints %r, header says %#x" % (p.entrypoints, base + R["opt"]["AddressOfEntryPoint"])))
    for _ in range(nq if R["sections"] else 0):
        sec = rng.choice(R["sections"])
        c = rng.random()
        if c < 0.2:
            rva = rng.randrange(0, R["opt"]["SizeOfImage"] + 16)
        elif c < 0.4:
            rva = sec["RVA"] + rng.choice([-1, 0, sec["VirtualSize"] - 1, sec["VirtualSize"], sec["SizeOfRawData"], sec["SizeOfRawData"] - 1])
        else:
            rva = sec["RVA"] + rng.randrange(0, max(1, sec["VirtualSize"]))
        if rva < 0:
            continue
        w = FG.pe_ref_locate(R, rva)
        g = p.locate(rva)
        if w is None:
            okl = g[0] is None
        elif w[0] == "hdr":
            okl = isinstance(g[0], int) and g[0] == 0 and g[1] == w[1]
        else:
            okl = g[0] is p.sections[w[0]] and g[1] == w[1]
        if not okl:
            out.append(("pe|locate", "locate(%#x) = %r, the section table says %r" % (rva, g, w)))
            continue
        if w is None:
            wo = None
        elif w[0] == "hdr":
            wo = w[1] if w[1] < R["opt"]["SizeOfHeaders"] else None
        else:
            sc = R["sections"][w[0]]
            wo = sc["PointerToRawData"] + w[1] if w[1] < sc["SizeOfRawData"] else None
        try:
            go = p.getfileoffset(rva + base)
        except Exception as x:
            go = "raised %r" % (x,)
        if go != wo:
            out.append(("pe|getfileoffset", "getfileoffset(base+%#x) = %r, the section table maps it to %r" % (rva, go, wo)))
        else:
            queries.append((rva, go))
    return out, queries


def objdump_pe_check(path, R):
    try:
        out = subprocess.run(["objdump", "-x", path], capture_output=True, text=True, timeout=30).stdout
    except Exception:
        return None
    if "file format pei-" not in out:
        return None
    pr = []
    for fld, pat in (("ImageBase", r"ImageBase\s+([0-9a-f]+)"), ("AddressOfEntryPoint", r"AddressOfEntryPoint\s+([0-9a-f]+)"),
                     ("SizeOfImage", r"SizeOfImage\s+([0-9a-f]+)"), ("SizeOfHeaders", r"SizeOfHeaders\s+([0-9a-f]+)")):
        m = re.search(pat, out)
        if not m or int(m.group(1), 16) != R["opt"][fld]:
            pr.append(fld)
    rows = re.findall(r"^\s*\d+\s+(\S+)\s+([0-9a-f]{8})\s+([0-9a-f]{8,16})\s+([0-9a-f]{8,16})\s+([0-9a-f]{8})\s+2\*\*", out, flags=re.M)
    if len(rows) != len(R["sections"]):
        pr.append("section count %d/%d" % (len(rows), len(R["sections"])))
    else:
        for r, s in zip(rows, R["sections"]):
            if int(r[2], 16) != R["opt"]["ImageBase"] + s["RVA"] or int(r[4], 16) != s["PointerToRawData"]:
                pr.append("section row")
    return pr


PESEC_ROWS = []
FAT_ROWS = []


def pe_part(run, quick):
    from amoco.system import pe
    del PESEC_ROWS[:]
    rng = random.Random(run.seed * 104729 + 14)
    rows = []
    items = []
    for n in range(150 if quick else 3000):
        s = FG.SynthPE(rng)
        items.append(("synth", s.image, s.describe()))
    nvar = 4 if quick else 40
    for f in sorted(glob.glob(SAMPLES + "/*/*.exe")):
        b = open(f, "rb").read()
        items.append((f, b, {}))
        R0 = FG.read_pe(b)
        for k in range(nvar):
            m = bytearray(b)
            o = R0["e_lfanew"] + 24
            # variation of fields that do not change the structure
            for off, wd in rng.sample([(o + 2, 1), (o + 3, 1), (o + 4, 4), (o + 8, 4), (o + 40, 2), (o + 42, 2), (o + 64, 4), (R0["e_lfanew"] + 8, 4)], 3):
                m[off:off + wd] = rng.randbytes(wd)
            items.append((f + "#var", bytes(m), {}))
    nchk = 0
    for src, img, desc in items:
        run.count(("pe", img[:8192], src), nontrivial=True)
        run.hist("pe_kind", "synth" if src == "synth" else "sample")
        R = FG.read_pe(img)
        if nchk < 4 or (src != "synth" and not src.endswith("#var")):
            p0 = run.work / ("t%d.exe" % nchk)
            p0.write_bytes(img)
            pr = objdump_pe_check(str(p0), R)
            nchk += 1
            run.cov["objdump_crosschecks"] = run.cov.get("objdump_crosschecks", 0) + 1
            if pr:
                run.violation("harness|pe-reference-vs-objdump", "reference PE reader disagrees with objdump: %s" % pr, {"src": src, "image": img.hex()[:4000]})
                continue
        try:
            p = pe.PE(dataio(img))
        except Exception as x:
            run.violation("pe|raised|" + type(x).__name__, "PE() raised %r on a structurally valid image (%s %s)" % (x, src, desc),
                          {"format": "pe", "image": img.hex() if len(img) < 40000 else None, "file": src})
            continue
        if src == "synth" and len(PESEC_ROWS) < (120 if quick else 1200):
            # what amoco read as the section table, for the Gallina model of its location (coq/C14/Containers.v)
            end = R["e_lfanew"] + 24 + R["coff"]["SizeOfOptionalHeader"] + 40 * R["coff"]["NumberOfSections"]
            try:
                obs = [[int.from_bytes(bytes(x.Name).ljust(8, b"\0")[:8], "little"), x.VirtualSize, x.RVA, x.SizeOfRawData, x.PointerToRawData, x.PointerToRelocations,
                        x.PointerToLineNumbers, x.NumberOfRelocations, x.NumberOfLineNumbers, x.Characteristics] for x in p.sections]
                PESEC_ROWS.append("(%s, %s)" % (blist(img[:end]), clist([clist(map(zlit, o)) for o in obs])))
            except Exception:
                pass
        diffs, queries = pe_compare(R, p, rng)
        for key, detail in diffs[:3]:
            run.violation(key, detail + " [%s %s]" % (os.path.basename(src), desc), {"format": "pe", "image": img.hex() if len(img) < 40000 else None, "file": src})
        if not diffs and queries:
            secs = clist([clist(map(zlit, [s["VirtualSize"], s["RVA"], s["SizeOfRawData"], s["PointerToRawData"], s["Characteristics"]])) for s in R["sections"]])
            rows.append("(%s, %s, %s, %s)" % (secs, zlit(R["opt"]["SizeOfImage"]), zlit(R["opt"]["SizeOfHeaders"]),
                                              clist(["(%s, %s)" % (zlit(a), olit(g)) for a, g in queries])))
    return rows


# ------------------------------------------------------------------------------------------------ Mach-O
def macho_flags(x):
    fl = x.flags
    if isinstance(fl, int):
        return fl
    return fl.type | (int.from_bytes(bytes(fl.attr), "little") << 8)


def macho_compare(R, p, rng, nq=10):
    out, queries = [], []
    for k, v in R["header"].items():
        # cputype / cpusubtype are integer_t in <mach-o/loader.h>; the 32 bits are compared, not their sign reading
        if (getattr(p.header, k) & 0xFFFFFFFF) != (v & 0xFFFFFFFF):
            out.append(("macho|header|" + k, "header %s reported %r, file encodes %r" % (k, getattr(p.header, k), v)))
    if [(c.cmd, c.cmdsize) for c in p.cmds] != R["cmds"]:
        out.append(("macho|cmds", "load commands reported %r, file encodes %r" % ([(c.cmd, c.cmdsize) for c in p.cmds][:8], R["cmds"][:8])))
        return out, queries
    segs = [c for c in p.cmds if c.cmd in (FG.LC_SEGMENT, FG.LC_SEGMENT_64)]
    for i, (a, b) in enumerate(zip(segs, R["segments"])):
        for k, v in b.items():
            if k == "sections":
                continue
            if getattr(a, k) != v:
                out.append(("macho|segment|" + k, "segment %d %s reported %r, file encodes %r" % (i, k, getattr(a, k), v)))
        if len(a.sections) != len(b["sections"]):
            out.append(("macho|sections|count", "segment %d: %d sections reported, %d encoded" % (i, len(a.sections), len(b["sections"]))))
            return out, queries
        for j, (x, y) in enumerate(zip(a.sections, b["sections"])):
            for k, v in y.items():
                g = macho_flags(x) if k == "flags" else getattr(x, k)
                if g != v:
                    out.append(("macho|section|" + k, "section %d.%d %s reported %r, file encodes %r" % (i, j, k, g, v)))
    if R["entry"] is not None:
        try:
            g = p.entrypoints
        except Exception as x:
            g = "raised %r" % (x,)
        if g != [R["entry"]]:
            out.append(("macho|entry", "entrypoints %r, the file encodes %#x" % (g, R["entry"])))
    if R["symbols"] is not None:
        st = getattr(p, "symtab", None) or []
        two = bool(R["header"]["flags"] & 0x80)
        got = [(x.strx if not two else x.strx.split(b"::")[-1], x.n_type, x.n_sect, x.n_desc, x.n_value) for x in st]
        if got != R["symbols"]:
            out.append(("macho|symbols", "symbol table reported %r, file encodes %r" % (got[:3], R["symbols"][:3])))
    for _ in range(nq):
        sg = rng.choice(R["segments"])
        if sg["vmsize"] == 0:
            continue
        c = rng.random()
        if c < 0.3 and sg["sections"]:
            sc = rng.choice(sg["sections"])
            a = sc["addr"] + rng.choice([0, -1, max(0, sc["size_"] - 1), sc["size_"]])
        else:
            a = sg["vmaddr"] + rng.randrange(0, sg["vmsize"])
        w = FG.macho_ref_locate(R, a)
        try:
            g = p.getinfo(a)
        except Exception as x:
            out.append(("macho|getinfo|raised", "getinfo(%#x) raised %r" % (a, x)))
            continue
        if w is None:
            if g[0] is not None:
                out.append(("macho|getinfo", "getinfo(%#x) located an unmapped address" % a))
            continue
        ws = segs[w[0]] if w[1] is None else segs[w[0]].sections[w[1]]
        if g[0] is not ws:
            out.append(("macho|getinfo", "getinfo(%#x) does not return the segment/section holding the address (%r)" % (a, w)))
            continue
        if w[2] is not None:
            try:
                o = p.getfileoffset(a)
            except Exception as x:
                o = "raised %r" % (x,)
            if o != w[2]:
                out.append(("macho|getfileoffset", "getfileoffset(%#x) = %r, the load commands map it to %r" % (a, o, w[2])))
            else:
                queries.append((a, o))
    return out, queries


def macho_part(run, quick):
    from amoco.system import macho
    rng = random.Random(run.seed * 1299709 + 14)
    rows = []
    items = []
    del FAT_ROWS[:]
    for n in range(150 if quick else 3000):
        s = FG.SynthMachO(rng)
        items.append(("synth", s.image, s.describe()))
    for f in sorted(glob.glob(SAMPLES + "/*/*/*.mach-o") + glob.glob(SAMPLES + "/*/*/*/*.mach-o")):
        b = open(f, "rb").read()
        items.append((f, b, {}))
        for k in range(4 if quick else 40):
            m = bytearray(b)
            for off in rng.sample([8, 12, 24], 2):        # cpusubtype, filetype, flags (keep MH_TWOLEVEL as it is)
                if off == 24:
                    v = struct.unpack_from("<I", m, 24)[0] ^ (rng.getrandbits(32) & ~0x80)
                    struct.pack_into("<I", m, 24, v)
                else:
                    m[off:off + 1] = rng.randbytes(1)
            items.append((f + "#var", bytes(m), {}))
    # fat (universal) files: a big-endian table of (cputype, cpusubtype, offset, size, align) followed by thin images; every
    # architecture entry must come back as encoded and hold the thin image found at its offset
    for n in range(20 if quick else 300):
        thins = [FG.SynthMachO(rng).image for _ in range(rng.randrange(1, 4))]
        off = 0x1000 * rng.randrange(1, 4)
        ents, body = [], b""
        for t in thins:
            al = rng.choice([12, 14])
            pad = (-(off + len(body))) % (1 << 12)
            body += b"\0" * pad
            ents.append((rng.choice([0x01000007, 0x0100000C, 7, 12]), rng.randrange(0, 4), off + len(body), len(t), al))
            body += t
        fat = struct.pack(">II", 0xCAFEBABE, len(thins)) + b"".join(struct.pack(">IIIII", *e) for e in ents)
        fat = fat.ljust(off, b"\0") + body
        run.count(("macho-fat", fat[:4096]), nontrivial=len(thins) >= 2)
        run.hist("macho_kind", "fat")
        rep = {"format": "macho-fat", "image": fat.hex() if len(fat) < 60000 else None, "archs": ents}
        try:
            p = macho.MachO(dataio(fat))
            got = [(a.cputype, a.cpusubtype, a.offset, a["size"], a.align) for a in p.archs]
        except Exception as x:
            run.violation("macho|fat|raised|" + type(x).__name__, "MachO() raised %r on a fat file of %d valid thin images" % (x, len(thins)), rep)
            continue
        if got != ents:
            run.violation("macho|fat|arch-table", "fat architecture table read as %s, the file encodes %s" % (got, ents), rep)
            continue
        if len(fat) < 14000 and len(FAT_ROWS) < (10 if quick else 60):
            try:
                heads = [list(struct.pack("<Ii", a.bin.header.magic, a.bin.header.cputype)) for a in p.archs]
                FAT_ROWS.append("(%s, %s, %s)" % (blist(fat), clist([clist(map(zlit, g)) for g in got]), clist([clist(map(str, h)) for h in heads])))
            except Exception:
                pass
        for a, t in zip(p.archs, thins):
            R = FG.read_macho(t)
            diffs, _q = macho_compare(R, a.bin, rng)
            for key, detail in diffs[:2]:
                run.violation(key.replace("macho|", "macho|fat|", 1), detail + " [architecture at offset %#x of a fat file]" % a.offset, rep)
    for src, img, desc in items:
        run.count(("macho", img[:8192], src), nontrivial=True)
        run.hist("macho_kind", "synth" if src == "synth" else "sample")
        try:
            R = FG.read_macho(img)
        except Exception as x:
            run.violation("harness|macho-reference", "reference reader failed on %s: %r" % (src, x), {"file": src})
            continue
        try:
            p = macho.MachO(dataio(img))
        except Exception as x:
            run.violation("macho|raised|" + type(x).__name__, "MachO() raised %r on a structurally valid image (%s %s)" % (x, src, desc),
                          {"format": "macho", "image": img.hex() if len(img) < 40000 else None, "file": src})
            continue
        diffs, queries = macho_compare(R, p, rng)
        for key, detail in diffs[:3]:
            run.violation(key, detail + " [%s %s]" % (os.path.basename(src), desc), {"format": "macho", "image": img.hex() if len(img) < 40000 else None, "file": src})
        if not diffs and queries:
            segs = clist(["(%s, %s)" % (clist(map(zlit, [s["vmaddr"], s["vmsize"], s["fileoffset"], s["filesize"]])),
                                         clist([clist(map(zlit, [c["addr"], c["size_"], c["offset"]])) for c in s["sections"]])) for s in R["segments"]])
            rows.append("(%s, %s)" % (segs, clist(["(%s, %s)" % (zlit(a), olit(g)) for a, g in queries])))
    return rows


# ------------------------------------------------------------------------------------------------ HEX / SREC
def hexline_observe(line):
    from amoco.system.structs import HEX
    try:
        l = HEX.HEXline(line)
    except HEX.HEXError:
        return None
    return (l.count, l.address, l.HEXcode, bytes(l.data))


def srecline_observe(line):
    from amoco.system.structs import SREC
    try:
        l = SREC.SRECline(line)
    except SREC.SRECError:
        return None
    return (l.SRECtype, l.address, bytes(l.data))


def corrupt(rng, line, what):
    l = bytearray(line)
    if what == "cksum":
        i = len(l) - rng.choice([1, 2])
    elif what == "payload":
        i = rng.randrange(1 if l[0:1] == b":" else 2, len(l) - 2)
    else:
        i = rng.randrange(0, len(l))
    hexd = b"0123456789ABCDEF"
    c = rng.choice(hexd)
    while c == l[i] or bytes([c]).lower() == bytes([l[i]]).lower():
        c = rng.choice(hexd)
    l[i] = c
    return bytes(l)


def text_part(run, quick):
    from amoco.system.structs import HEX, SREC
    rng = random.Random(run.seed * 15485863 + 14)
    hexrows, srecrows, filerows = [], [], []
    hexmeta, srecmeta = [], []
    for n in range(250 if quick else 5000):
        # ---- HEX
        txt, recs, entry, lines = FG.gen_hex(rng)
        run.count(("hex", txt), nontrivial=len(recs) >= 2)
        try:
            h = HEX.HEX(NamedIO(txt))
            h.decode()
            got = [(a, bytes(d)) for a, d in h._HEX__lines]
            if got != recs:
                run.violation("hex|records", "HEX data records decode to %r..., the file encodes %r..." % (got[:2], recs[:2]), {"format": "hex", "text": txt.decode()})
            elif entry is not None and h.entrypoints != [entry]:
                run.violation("hex|entry", "HEX entrypoints %r, start record says %r" % (h.entrypoints, entry), {"format": "hex", "text": txt.decode()})
            else:
                filerows.append("(%s, %s)" % (clist(["(%d, %d, %d)" % (l.HEXcode, l.address, getattr(l, "base", getattr(l, "ela", 0))) for l in h.L]),
                                              clist([zlit(a) for a, _ in got])))
        except Exception as x:
            run.violation("hex|raised|" + type(x).__name__, "HEX() raised %r on a valid record stream" % (x,), {"format": "hex", "text": txt.decode()})
        for what in ("cksum", "payload"):
            i = rng.randrange(len(lines))
            bad = list(lines)
            bad[i] = corrupt(rng, lines[i], what)
            try:
                HEX.HEX(NamedIO(b"\n".join(bad) + b"\n"))
                run.violation("hex|bad-checksum-accepted", "a HEX file with a line failing its checksum (%s changed) is accepted" % what,
                              {"format": "hex", "text": (b"\n".join(bad)).decode()})
            except HEX.HEXError:
                pass
            except Exception as x:
                run.violation("hex|bad-checksum|" + type(x).__name__, "a HEX line failing its checksum raises %r instead of HEXError" % (x,),
                              {"format": "hex", "text": (b"\n".join(bad)).decode()})
        for l in lines[:4]:
            for v in (l, corrupt(rng, l, "cksum"), corrupt(rng, l, "payload")):
                try:
                    o = hexline_observe(v)
                except Exception as x:
                    # record-specific asserts after the checksum test (start/extended records with a wrong count)
                    run.violation("hex|line-raised|" + type(x).__name__, "HEXline raised %r" % (x,), {"format": "hexline", "line": v.decode()})
                    continue
                hexrows.append("(%s, %s)" % (blist(v), "None" if o is None else "(Some (%d, %d, %d, %s))" % (o[0], o[1], o[2], blist(o[3]))))
                hexmeta.append(v)
        # ---- SREC
        txt, recs, entry, lines = FG.gen_srec(rng)
        run.count(("srec", txt), nontrivial=len(recs) >= 2)
        try:
            s = SREC.SREC(NamedIO(txt))
            got = [(l.address, bytes(l.data)) for l in s.L if l.SRECtype in (1, 2, 3)]
            if got != recs:
                run.violation("srec|records", "S-record data decodes to %r..., the file encodes %r..." % (got[:2], recs[:2]), {"format": "srec", "text": txt.decode()})
            elif s.entrypoints != [entry]:
                run.violation("srec|entry", "SREC entrypoints %r, start record says %#x" % (s.entrypoints, entry), {"format": "srec", "text": txt.decode()})
        except Exception as x:
            run.violation("srec|raised|" + type(x).__name__, "SREC() raised %r on a valid record stream" % (x,), {"format": "srec", "text": txt.decode()})
        for what in ("cksum", "payload"):
            i = rng.randrange(len(lines))
            bad = list(lines)
            bad[i] = corrupt(rng, lines[i], what)
            try:
                SREC.SREC(NamedIO(b"\n".join(bad) + b"\n"))
                run.violation("srec|bad-checksum-accepted", "an S-record file with a line failing its checksum (%s changed) is accepted" % what,
                              {"format": "srec", "text": (b"\n".join(bad)).decode()})
            except SREC.SRECError:
                pass
            except Exception as x:
                run.violation("srec|bad-checksum|" + type(x).__name__, "an S-record line failing its checksum raises %r instead of SRECError" % (x,),
                              {"format": "srec", "text": (b"\n".join(bad)).decode()})
        for l in lines[:4]:
            for v in (l, corrupt(rng, l, "cksum"), corrupt(rng, l, "payload")):
                try:
                    o = srecline_observe(v)
                except Exception as x:
                    run.violation("srec|line-raised|" + type(x).__name__, "SRECline raised %r" % (x,), {"format": "srecline", "line": v.decode()})
                    continue
                srecrows.append("(%s, %s)" % (blist(v), "None" if o is None else "(Some (%d, %s, %s))" % (o[0], zlit(o[1]), blist(o[2]))))
                srecmeta.append(v)
    # the shipped firmware.hex: every line decodes to what an independent decoder reads, and re-encodes to itself
    for f in sorted(glob.glob(SAMPLES + "/*/*.hex")):
        for raw in open(f, "rb").read().split():
            o = hexline_observe(raw)
            body = bytes.fromhex(raw[1:].decode())
            want = (body[0], body[1] * 256 + body[2], body[3], body[4:4 + body[0]]) if (sum(body) & 255) == 0 else None
            run.count(("hex-sample", raw))
            if o != want:
                run.violation("hex|sample-line", "firmware.hex line %r decodes to %r, independent decoder reads %r" % (raw, o, want), {"format": "hexline", "line": raw.decode()})
    return hexrows, hexmeta, srecrows, srecmeta, filerows


def observe_any(obj):
    """replay helper: recompute the findings for one stored input"""
    rng = random.Random(0)
    kp, ks = known_types()
    fmt = obj.get("format")
    if fmt == "elf" and obj.get("image"):
        img = bytes.fromhex(obj["image"])
        R = EG.read_elf(img)
        R["image"] = img
        return elf_compare(R, elf_observe(img), rng, nq=200, kp=set(kp), ks=set(ks))
    if fmt == "pe" and obj.get("image"):
        from amoco.system import pe
        img = bytes.fromhex(obj["image"])
        return pe_compare(FG.read_pe(img), pe.PE(dataio(img)), rng, nq=200)[0]
    if fmt == "macho" and obj.get("image"):
        from amoco.system import macho
        img = bytes.fromhex(obj["image"])
        return macho_compare(FG.read_macho(img), macho.MachO(dataio(img)), rng, nq=200)[0]
    return None


def check(run):
    quick = run.tier == "quick"
    isa.load_all()
    run.cov["rule"] = ("synthesised ELF images (4 class/byte-order combinations; 1-4 load segments, extra segments incl. OS/processor-specific "
                       "types, sections cut out of the segments, symbol and string tables at shuffled positions with gaps), synthesised "
                       "PE32/PE32+ header sets with 1-5 sections and 0-16 data directories, synthesised 32/64-bit Mach-O images (segments, "
                       "sections, LC_MAIN or LC_UNIXTHREAD, symbol table), the shipped samples and 4-60 field-level variations of each, "
                       "generated HEX / S-record streams and lines with corrupted checksum or payload digits; distinct by file bytes; "
                       "non-trivial when >= 2 program and section headers / >= 2 data records")
    run.static_part()
    elf_part(run, quick)
    perows = pe_part(run, quick)
    morows = macho_part(run, quick)
    hexrows, hexmeta, srecrows, srecmeta, filerows = text_part(run, quick)
    hdr = "From Coq Require Import ZArith List.\nImport ListNotations.\nRequire Import Amoco.C14.Model.\nOpen Scope Z_scope.\n"
    texts = []

    def shard(name, rows, typ, fn, size):
        for i in range(0, len(rows), size):
            texts.append(("%s_%03d" % (name, i // size), hdr + "Definition cases : list (%s) := [\n%s\n].\nEval vm_compute in (bad_from %s 0 cases).\n" % (
                typ, ";\n".join(rows[i:i + size]), fn), name, i))
    shard("pe", perows, "list (list Z) * Z * Z * list (Z * option Z)", "check_pe", 200)
    shard("macho", morows, "list (list Z * list (list Z)) * list (Z * option Z)", "check_macho", 200)
    shard("hexline", hexrows, "list Z * option (Z * Z * Z * list Z)", "check_hexline", 300)
    shard("srecline", srecrows, "list Z * option (Z * Z * list Z)", "check_srecline", 300)
    shard("hexfile", filerows, "list (Z * Z * Z) * list Z", "check_hexfile", 300)
    hdr = hdr.replace("Require Import Amoco.C14.Model.", "Require Import Amoco.C14.Model Amoco.C14.Containers.")
    shard("pesec", PESEC_ROWS, "list Z * list (list Z)", "check_pesec", 40)
    shard("fat", FAT_ROWS, "list Z * list (list Z) * list (list Z)", "check_fat", 4)
    res = common.coq_eval_many(run.work / "misc", [(n, t) for n, t, _, _ in texts])
    ok = 0
    for n, t, kind, base in texts:
        rc, out = res[n]
        lists = common.parse_nat_list(out)
        if rc != 0 or len(lists) != 1:
            run.violation("model-eval|" + kind, "%s model evaluation failed" % kind, {"theorem_or_correspondence": "Amoco.C14.%s.check_%s (%s)" % ("Containers" if kind in ("pesec", "fat") else "Model", kind, n),
                                                                                        "output": out[-800:]}, found_input=False)
            continue
        ok += t.count(";\n") + 1
        for k in lists[0][:2]:
            rep = {"theorem_or_correspondence": "Amoco.C14.Model.check_" + kind, "case_index": base + k}
            if kind == "hexline":
                rep.update(format="hexline", line=hexmeta[base + k].decode())
            if kind == "srecline":
                rep.update(format="srecline", line=srecmeta[base + k].decode())
            run.violation(kind + "|model-impl-correspondence", "the implementation's %s result differs from the model's" % kind, rep,
                          found_input=kind in ("hexline", "srecline"))
    run.cov["model_cases_misc"] = ok
    run.cov["traces_validated_against_impl"] = run.cov.get("traces_validated_against_impl", 0) + ok
    run.cov["trusted_base"] += ["harness/elfgen.py, harness/fmtgen.py (independent readers and synthesisers written from the format specifications; "
                                "cross-checked on every run against readelf / objdump on samples and synthesised files)",
                                "harness/c14.py live_layouts (dump of the live structure classes into Coq literals)"]
    run.assumptions += ["PE import/TLS/load-config tables, Mach-O dyld info and ELF relocation/dynamic tables are outside the modelled part "
                        "(the synthesised PE images keep those directories empty)",
                        "big-endian (MH_CIGAM) thin Mach-O files are not generated"]
    return run


def replay(path):
    obj = json.load(open(path))["replay"]
    isa.load_all()
    if obj.get("format") in ("hexline", "srecline"):
        f = hexline_observe if obj["format"] == "hexline" else srecline_observe
        print(f(obj["line"].encode()))
        return 1
    r = observe_any(obj)
    print(r)
    return 1 if r or r is None else 0
