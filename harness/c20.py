# C20 — program identification is total and reports only format errors.
# Static: coq/Properties/C20.v (the read_program chain over abstract constructors: total, an exception escapes only from
# the first non-rejecting constructor, no cross-claim under pairwise disjoint magic prefixes; HEX/SREC line parsers total).
# Tie: regenerated obligation (magic prefixes of the live constants are pairwise disjoint); the theorem's hypotheses are
# tested per run: read_program on random data, truncations and corruptions of the samples and of synthesised
# ELF/PE/Mach-O/HEX/SREC files never raises, stays within time and memory limits, returns a format only for inputs
# carrying its magic, and identifies every valid file as its own format; HEX/SREC garbage lines vs the complete line model.
import glob
import json
import multiprocessing as mp
import os
import random
import resource
import signal
import struct
import time
import traceback

import common
import isa
import elfgen as EG
import fmtgen as FG
import c14
from common import zlit, clist

LEVEL = "proof"
SAMPLES = c14.SAMPLES
TIME_LIMIT = 8.0
MEM_JUMP_MB = 400


class CaseTimeout(BaseException):
    pass


def _alarm(signum, frame):
    raise CaseTimeout()


def magic_of(b):
    """format names whose magic prefix the input carries (harness-side table, same as the Coq one)"""
    out = []
    for name, ms in MAGICS.items():
        if any(b[:len(m)] == m for m in ms):
            out.append(name)
    return out


MAGICS = {}


def live_magics():
    from amoco.system import elf, pe, macho, coff
    from amoco.system.structs import Consts
    M = {}
    M["Elf"] = [bytes([0x7F]) + b"ELF"]
    M["PE"] = [b"MZ"]
    M["MachO"] = [struct.pack("<I", m) for m in (macho.MH_MAGIC, macho.MH_MAGIC_64, macho.FAT_CIGAM)]
    M["COFF"] = [struct.pack("<H", m) for m in sorted(Consts.All["f_magic"].keys())]
    M["HEX"] = [b":"]
    M["SREC"] = [b"S"]
    return M


def site_of(x):
    tb = traceback.extract_tb(x.__traceback__)
    fr = [f for f in tb if "/amoco/" in f.filename]
    if not fr:
        return "?"
    f = fr[-1]
    return "%s:%s" % (os.path.basename(f.filename), f.name)


def identify(b):
    """(outcome, seconds, rss jump MB)"""
    from amoco.system.core import read_program
    r0 = resource.getrusage(resource.RUSAGE_SELF).ru_maxrss
    t0 = time.process_time()
    signal.setitimer(signal.ITIMER_PROF, TIME_LIMIT + 4)
    try:
        p = read_program(b)
        out = ("ok", type(p).__name__)
    except CaseTimeout:
        out = ("timeout", "")
    except MemoryError as x:
        out = ("exc", "MemoryError", site_of(x))
    except BaseException as x:
        out = ("exc", type(x).__name__, site_of(x))
    finally:
        signal.setitimer(signal.ITIMER_PROF, 0)
    dt = time.process_time() - t0
    r1 = resource.getrusage(resource.RUSAGE_SELF).ru_maxrss
    return out, dt, (r1 - r0) / 1024.0


def hot_stage(b, after=3.0):
    """where read_program is after `after` seconds of CPU time: the parsing stage right below the constructor"""
    from amoco.system.core import read_program
    signal.setitimer(signal.ITIMER_PROF, after)
    try:
        read_program(b)
        return "?"
    except CaseTimeout as x:
        tb = [f for f in traceback.extract_tb(x.__traceback__) if "/amoco/" in f.filename]
        names = ["%s:%s" % (os.path.basename(f.filename), f.name) for f in tb]
        if "pe.py:loadsegment" in names:
            # root cause shared by every PE table reader (imports, TLS, load config): getdata materialises the section
            # padded to its (corrupted) VirtualSize
            return "pe.py:loadsegment"
        for i, n in enumerate(names):
            if n.endswith(":__parse") and i + 1 < len(names):
                return names[i + 1]
        return names[-1] if names else "?"
    except BaseException:
        return "?"
    finally:
        signal.setitimer(signal.ITIMER_PROF, 0)


def remeasure(b):
    """one input alone in a fresh worker: (outcome, CPU seconds, finding key)"""
    signal.signal(signal.SIGPROF, _alarm)
    resource.setrlimit(resource.RLIMIT_AS, (4 << 30, 4 << 30))
    o, dt, jump = identify(b)
    return o, dt, ("time|%s" % hot_stage(b)) if (o[0] == "timeout" or dt > TIME_LIMIT) else None


def gen_inputs(seed, n, files):
    """yields (tag, bytes, expected format name or None)"""
    rng = random.Random(seed)
    pres = [b"\x7fELF", b"MZ", b"\xcf\xfa\xed\xfe", b"\xce\xfa\xed\xfe", b":", b"S1", b"\xca\xfe\xba\xbe", b"\x4c\x01", b"\x7fELF\x02\x02\x01",
            b"\x7fELF\x01\x01\x01", b"MZ" + b"\0" * 58 + b"\x40\0\0\0PE\0\0"]
    for k in range(n):
        c = rng.random()
        if c < 0.12:
            yield "random", rng.randbytes(rng.randrange(0, 400)), None
        elif c < 0.24:
            yield "magic+random", rng.choice(pres) + rng.randbytes(rng.randrange(0, 400)), None
        elif c < 0.62:
            f, b = rng.choice(files)
            cc = rng.random()
            if cc < 0.35:
                cut = rng.randrange(0, len(b)) if rng.random() < 0.5 else rng.randrange(0, min(len(b), 600))
                yield "trunc:" + f, b[:cut], None
            else:
                m = bytearray(b)
                for _ in range(rng.randrange(1, 6)):
                    i = rng.randrange(0, min(len(b), 2048)) if rng.random() < 0.7 else rng.randrange(0, len(b))
                    m[i] = rng.choice([0, 0xFF, rng.randrange(256), m[i] ^ (1 << rng.randrange(8))])
                yield "corrupt:" + f, bytes(m), None
        else:
            kind = rng.choice(["elf", "elf", "pe", "macho", "hex", "srec"])
            if kind == "elf":
                s = EG.Synth(rng, exotic=rng.random() < 0.3)
                b, want = s.image, "Elf"
            elif kind == "pe":
                spe = FG.SynthPE(rng, imports=rng.random() < 0.6)
                b, want = spe.image, "PE"
                if spe.import_fields and rng.random() < 0.6:
                    # an RVA-valued field of the import tables set to a value outside the image / inside the headers / odd
                    m = bytearray(b)
                    soi = spe.opt["SizeOfImage"]
                    for _ in range(rng.choice([1, 1, 2])):
                        off, w, what = rng.choice(spe.import_fields)
                        v = rng.choice([0, 1, 0x10, soi - 1, soi, soi + 0x1090, 0xF01090, 0x7FFFFFFF, 0xFFFFFFFF, spe.sections[-1]["RVA"] + spe.sections[-1]["VirtualSize"] - 1,
                                        rng.getrandbits(32), rng.getrandbits(20)])
                        m[off:off + w] = (v & ((1 << (8 * w)) - 1)).to_bytes(w, "little")
                    yield "corrupt-import:pe", bytes(m), None
                    continue
            elif kind == "macho":
                b, want = FG.SynthMachO(rng).image, "MachO"
            elif kind == "hex":
                b, want = FG.gen_hex(rng)[0], "HEX"
            else:
                b, want = FG.gen_srec(rng)[0], "SREC"
            if kind in ("hex", "srec") and rng.random() < 0.35:
                # grammar-aware damage: one record gets fewer / more payload bytes than its count field says (or an odd count),
                # and its checksum is recomputed so that the line passes every check made before the fields are interpreted
                lines = b.split(b"\n")
                idx = [i for i, l in enumerate(lines) if len(l.strip()) >= 10]
                pref = [i for i in idx if (kind == "hex" and lines[i].strip()[7:9] in (b"02", b"03", b"04", b"05")) or
                        (kind == "srec" and lines[i].strip()[1:2] in (b"0", b"5", b"7", b"8", b"9"))]
                if idx:
                    i = rng.choice(pref if pref and rng.random() < 0.7 else idx)
                    l = lines[i].strip()
                    try:
                        raw = bytearray(bytes.fromhex(l[1:].decode() if kind == "hex" else l[2:].decode()))
                        body = raw[:-1]
                        nhead = 4 if kind == "hex" else 1
                        c = rng.random()
                        if c < 0.5 and len(body) > nhead:
                            del body[len(body) - rng.randrange(1, min(3, len(body) - nhead) + 1):]
                        elif c < 0.7:
                            body += rng.randbytes(rng.randrange(1, 3))
                        else:
                            body[0] = rng.choice([0, 1, 3, body[0] + 1 & 0xFF, 0xFF])
                        ck = (-sum(body)) & 0xFF if kind == "hex" else (0xFF - (sum(body) & 0xFF))
                        lines[i] = (b":" if kind == "hex" else l[:2]) + bytes(body + bytes([ck])).hex().upper().encode()
                        yield "restructured:" + kind, b"\n".join(lines), None
                        continue
                    except Exception:
                        pass
            cc = rng.random()
            if cc < 0.3:
                yield "valid:" + kind, b, want
            elif cc < 0.55:
                yield "trunc:" + kind, b[:rng.randrange(0, len(b))], None
            else:
                m = bytearray(b)
                # single fields set to boundary values / a few bytes damaged
                for _ in range(rng.randrange(1, 5)):
                    i = rng.randrange(0, len(m))
                    w = rng.choice([1, 2, 4, 8])
                    v = rng.choice([b"\0" * w, b"\xff" * w, rng.randbytes(w), (1 << (8 * w - 1)).to_bytes(w, "little")])
                    m[i:i + w] = v
                yield "corrupt:" + kind, bytes(m[:len(b)]), None


def worker(args):
    seed, n, files = args
    signal.signal(signal.SIGPROF, _alarm)
    resource.setrlimit(resource.RLIMIT_AS, (4 << 30, 4 << 30))
    out = {"n": 0, "finds": {}, "hist": {}, "outcomes": {}, "valid": 0, "samples": []}
    for tag, b, want in gen_inputs(seed, n, files):
        out["n"] += 1
        kind = tag.split(":")[0]
        out["hist"][kind] = out["hist"].get(kind, 0) + 1
        o, dt, jump = identify(b)
        key = None
        if o[0] == "exc":
            key = "leak|%s|%s" % (o[2], o[1])
            what = "read_program raised %s (at %s) on %s" % (o[1], o[2], tag)
        elif o[0] == "timeout" or dt > TIME_LIMIT:
            key = "time|%s" % hot_stage(b)
            what = "read_program used more than %.0f s of CPU time on %s (%d bytes) [%s, %.1f s]" % (TIME_LIMIT, tag, len(b), o[0], dt)
        elif jump > MEM_JUMP_MB:
            key = "memory|%s" % (o[1] if o[0] == "ok" else "?")
            what = "read_program grew the process by %.0f MB on a %d-byte input (%s)" % (jump, len(b), tag)
        elif o[0] == "ok":
            name = o[1]
            out["outcomes"][name] = out["outcomes"].get(name, 0) + 1
            if want is not None:
                out["valid"] += 1
                if name != want:
                    key = "cross-claim|%s-as-%s" % (want, name)
                    what = "a valid %s file is identified as %s" % (want, name)
            if key is None and name in MAGICS and name not in magic_of(b.lstrip() if name in ("HEX", "SREC") else b):
                key = "magic|%s" % name
                what = "%s recognised an input that does not carry its magic prefix (%s)" % (name, b[:8].hex())
        if key and key not in out["finds"]:
            out["finds"][key] = {"what": what, "input": b.hex() if len(b) <= 300000 else None, "tag": tag, "length": len(b)}
        if len(out["samples"]) < 1 and want:
            out["samples"].append({"tag": tag, "length": len(b), "outcome": o[1]})
    return out


GARBAGE = b"0123456789ABCDEFabcdef:SGZ"


def line_part(run, quick):
    """arbitrary corrupted HEX / SREC lines (restricted alphabet, see assumptions) vs the complete line model"""
    rng = random.Random(run.seed * 3571 + 20)
    hexrows, srecrows, hm, sm = [], [], [], []
    for n in range(900 if quick else 12000):
        c = rng.random()
        if c < 0.5:
            txt, recs, entry, lines = FG.gen_hex(rng)
        else:
            txt, recs, entry, lines = FG.gen_srec(rng)
        l = bytearray(rng.choice(lines))
        cc = rng.random()
        if cc < 0.3:
            for _ in range(rng.randrange(1, 4)):
                l[rng.randrange(len(l))] = rng.choice(GARBAGE)
        elif cc < 0.5:
            l = l[:rng.randrange(1, len(l))]
        elif cc < 0.65:
            i = rng.randrange(1, len(l))
            l[i:i] = bytes(rng.choice(GARBAGE) for _ in range(rng.randrange(1, 4)))
        elif cc < 0.85:
            # a consistent record with a wrong count / type field and a repaired checksum
            try:
                if l[:1] == b":":
                    body = bytearray(bytes.fromhex(l[1:-2].decode()))
                    body[rng.choice([0, 3])] = rng.choice([0, 1, 2, 3, 4, 5, 6, rng.randrange(256)])
                    l = bytearray(b":" + (bytes(body) + bytes([(-sum(body)) & 255])).hex().upper().encode())
                else:
                    body = bytearray(bytes.fromhex(l[2:-2].decode()))
                    body[0] = rng.choice([0, 1, 2, 3, len(body), len(body) + 1, rng.randrange(256)])
                    l = bytearray(l[:1] + bytes([rng.choice(b"0123456789")]) + (bytes(body) + bytes([(~sum(body)) & 255])).hex().upper().encode())
            except ValueError:
                pass
        else:
            l = bytearray(bytes(rng.choice(GARBAGE) for _ in range(rng.randrange(1, 30))))
        l = bytes(l)
        run.count(("line", l), nontrivial=True)
        for kind, f, rows, meta in (("hex", c14.hexline_observe, hexrows, hm), ("srec", c14.srecline_observe, srecrows, sm)):
            try:
                o = f(l)
            except BaseException as x:
                run.violation("line|%s|%s" % (kind, type(x).__name__), "%s line parser raised %r on %r" % (kind.upper(), x, l), {"format": kind + "line", "line": l.decode("latin1")})
                continue
            if kind == "hex":
                rows.append("(%s, %s)" % (c14.blist(l), "None" if o is None else "(Some (%d, %d, %d, %s))" % (o[0], o[1], o[2], c14.blist(o[3]))))
            else:
                rows.append("(%s, %s)" % (c14.blist(l), "None" if o is None else "(Some (%d, %s, %s))" % (o[0], zlit(o[1]), c14.blist(o[2]))))
            meta.append(l)
    hdr = "From Coq Require Import ZArith List.\nImport ListNotations.\nRequire Import Amoco.C14.Model.\nOpen Scope Z_scope.\n"
    texts = []
    for name, rows, typ, fn, meta in (("hexline", hexrows, "list Z * option (Z * Z * Z * list Z)", "check_hexline", hm),
                                      ("srecline", srecrows, "list Z * option (Z * Z * list Z)", "check_srecline", sm)):
        for i in range(0, len(rows), 400):
            texts.append(("%s_%03d" % (name, i // 400), hdr + "Definition cases : list (%s) := [\n%s\n].\nEval vm_compute in (bad_from %s 0 cases).\n" % (
                typ, ";\n".join(rows[i:i + 400]), fn), name, i, meta))
    res = common.coq_eval_many(run.work / "lines", [(n, t) for n, t, _, _, _ in texts])
    ok = 0
    for n, t, kind, base, meta in texts:
        rc, out = res[n]
        lists = common.parse_nat_list(out)
        if rc != 0 or len(lists) != 1:
            run.violation("model-eval|" + kind, "%s model evaluation failed" % kind, {"theorem_or_correspondence": "Amoco.C14.Model.check_%s (%s)" % (kind, n), "output": out[-600:]}, found_input=False)
            continue
        ok += t.count(";\n(") + 1
        for k in lists[0][:2]:
            run.violation(kind + "|model-impl-correspondence", "%s: the implementation accepts/rejects or decodes the line %r differently from the model" % (kind, meta[base + k]),
                          {"theorem_or_correspondence": "Amoco.C14.Model.check_" + kind, "format": kind, "line": meta[base + k].decode("latin1")})
    run.cov["line_cases_in_coq"] = ok
    run.cov["traces_validated_against_impl"] = run.cov.get("traces_validated_against_impl", 0) + ok


def check(run):
    quick = run.tier == "quick"
    isa.load_all()
    global MAGICS
    MAGICS = live_magics()
    run.cov["rule"] = ("random bytes; magic prefix + random bytes; truncations and 1-5 byte corruptions of the shipped samples; synthesised "
                       "ELF / PE / Mach-O / HEX / SREC files valid, truncated, or with 1-4 fields set to boundary values; corrupted HEX / SREC lines; "
                       "distinct by input bytes; every input counts as non-trivial when it passes at least one magic test")
    run.static_part()
    # regenerated obligation: magic prefixes are pairwise disjoint
    tabs = [clist([c14.blist(m) for m in MAGICS[k]]) for k in ("Elf", "PE", "MachO", "COFF", "HEX", "SREC")]
    text = ("From Coq Require Import ZArith List.\nImport ListNotations.\nRequire Import Amoco.C20.Model.\nOpen Scope Z_scope.\n"
            "Lemma live_magics_disjoint : pairwise_disjoint %s = true.\nProof. vm_compute. reflexivity. Qed.\n" % clist(tabs))
    res = common.coq_eval_many(run.work / "magic", [("magics", text)])
    rc, out = res["magics"]
    run.obligation("Amoco.C20 live_magics_disjoint", rc == 0, {"tables": {k: [m.hex() for m in v] for k, v in MAGICS.items()}})
    if rc != 0:
        run.violation("regenerated|magic-tables", "the magic prefixes of two formats are compatible: a file can pass both magic tests",
                      {"theorem_or_correspondence": "generated lemma live_magics_disjoint", "output": out[-600:], "tables": {k: [m.hex() for m in v] for k, v in MAGICS.items()}},
                      found_input=False)
    files = []
    for f in sorted(glob.glob(SAMPLES + "/*/*") + glob.glob(SAMPLES + "/*/*/*.mach-o") + glob.glob(SAMPLES + "/*/*/*/*.mach-o")):
        if os.path.isfile(f):
            b = open(f, "rb").read()
            if 0 < len(b) < 250000:
                files.append((os.path.basename(f), b))
    # intact samples are identified as what `file` says they are
    signal.signal(signal.SIGPROF, _alarm)
    for f, b in files:
        want = "Elf" if b[:4] == b"\x7fELF" else "PE" if b[:2] == b"MZ" else "MachO" if b[:4] in (b"\xcf\xfa\xed\xfe", b"\xce\xfa\xed\xfe") else \
               "HEX" if f.endswith(".hex") else None
        o, dt, jump = identify(b)
        run.count(("sample", f), nontrivial=True)
        if o[0] != "ok":
            run.violation("sample|%s" % f, "read_program failed on the intact sample %s: %r" % (f, o), {"file": f})
        elif want and o[1] != want:
            run.violation("cross-claim|%s-as-%s" % (want, o[1]), "the sample %s (%s) is identified as %s" % (f, want, o[1]), {"file": f})
    # minimised / recorded failures run first
    for cf in sorted(glob.glob(str(common.VERIF / "corpus" / "C20" / "*.json"))):
        obj = json.load(open(cf))
        rep = obj.get("replay", obj)
        if rep.get("input"):
            b = bytes.fromhex(rep["input"])
            o, dt, jump = identify(b)
            run.count(("corpus", cf), nontrivial=True)
            if o[0] == "exc":
                run.violation("leak|%s|%s" % (o[2], o[1]), "corpus %s: read_program raised %s" % (os.path.basename(cf), o[1]), rep)
            elif o[0] == "timeout" or dt > TIME_LIMIT:
                run.violation("time|%s" % hot_stage(b), "corpus %s: read_program used %.1f s of CPU time on a %d-byte input" % (os.path.basename(cf), dt, len(b)), rep)
    per = 420 if quick else 9000
    tasks = [(run.seed * 977 + i, per, files) for i in range(14)]
    # the parent's heap (every ISA module is loaded) must not be traversed by the workers' garbage collector: after a
    # fork that copies every page and charges seconds of CPU time to whichever input triggers the collection
    import gc
    gc.collect()
    gc.freeze()
    with mp.get_context("fork").Pool(14) as pool:
        results = pool.map(worker, tasks, chunksize=1)
    slow = []
    for r in results:
        run.cov["evaluations"] += r["n"]
        run._distinct.update(("%d-%d" % (id(r), j)).encode() for j in range(r["n"]))
        for k, v in r["hist"].items():
            run.cov.setdefault("input_kinds", {})[k] = run.cov.setdefault("input_kinds", {}).get(k, 0) + v
        for k, v in r["outcomes"].items():
            run.cov.setdefault("identified_as", {})[k] = run.cov.setdefault("identified_as", {}).get(k, 0) + v
        run.cov["valid_files_identified"] = run.cov.get("valid_files_identified", 0) + r["valid"]
        for s in r["samples"]:
            run.sample(s, 3)
        for k, v in sorted(r["finds"].items()):
            if k.startswith("time|") and v["input"] is not None:
                slow.append((k, v))
                continue
            run.violation(k, v["what"], {"input": v["input"], "tag": v["tag"], "length": v["length"]}, found_input=v["input"] is not None)
    # CPU time measured inside a loaded 14-process pool is confirmed once more here, alone, before it is reported
    for k, v in slow:
        b = bytes.fromhex(v["input"])
        with mp.get_context("fork").Pool(1) as one:
            o, dt, k2 = one.apply(remeasure, (b,))
        run.cov["slow_inputs_remeasured"] = run.cov.get("slow_inputs_remeasured", 0) + 1
        if o[0] == "timeout" or dt > TIME_LIMIT:
            run.violation(k2, v["what"] + " (confirmed alone: %.1f s)" % dt, {"input": v["input"], "tag": v["tag"], "length": v["length"]})
    line_part(run, quick)
    run.cov["limits"] = {"seconds": TIME_LIMIT, "rss_jump_mb": MEM_JUMP_MB, "address_space_gb": 4}
    run.cov["trusted_base"] += ["harness/c20.py outcome classification (exception class and innermost amoco frame), time and memory measurement "
                                "(wall clock, ru_maxrss growth of the worker)", "harness/elfgen.py, fmtgen.py (valid files of each format)"]
    run.assumptions += ["the theorem's hypothesis (no constructor raises outside its own error types) is tested, not proved: the constructors are "
                        "thousands of lines of Python outside the model", "HEX / SREC garbage lines use the alphabet 0-9A-Fa-f:SGZ (Python's int() also "
                        "accepts signs, spaces and underscores, which the line model does not describe)",
                        "HEX / SREC magic is tested after stripping leading whitespace, as the parsers do"]
    return run


def replay(path):
    obj = json.load(open(path))["replay"]
    isa.load_all()
    global MAGICS
    MAGICS = live_magics()
    signal.signal(signal.SIGPROF, _alarm)
    if obj.get("input") is not None:
        o = identify(bytes.fromhex(obj["input"]))
        print(o)
        return 0 if o[0][0] == "ok" and o[1] <= TIME_LIMIT else 1
    if obj.get("line") is not None:
        l = obj["line"].encode("latin1")
        for f in (c14.hexline_observe, c14.srecline_observe):
            try:
                print(f(l))
            except BaseException as x:
                print("raised", repr(x))
                return 1
        return 1
    print(obj)
    return 1
