# C20 — program identification is total and reports only format errors.
# Static: coq/Properties/C20.v (the read_program chain over abstract constructors: total, an exception escapes only from
# the first non-rejecting constructor, no cross-claim under pairwise disjoint magic prefixes; HEX/SREC line parsers total).
# Tie: regenerated obligation (magic prefixes of the live constants are pairwise disjoint); the theorem's hypotheses are
# tested per run: read_program on random data, truncations and corruptions of the samples and of synthesised
# ELF/PE/Mach-O/HEX/SREC files never raises, stays within time and memory limits, returns a format only for inputs
# carrying its magic, and identifies every valid file as its own format; HEX/SREC garbage lines vs the complete line model.
# Structured families (gen_structured): S-record files with arbitrary binary S0 header payloads (outcome fixed by the
# independent validator fmtgen.srec_file_valid), fat Mach-O files with every subset of arch offset/size fields damaged, and
# table descriptors damaged jointly (count x entry size x offset, plus the null section header's extended-numbering fields):
# all combinations on tiny ELF images of every class / byte order, products and samples for PE, Mach-O and COFF.
import glob
import itertools
import json
import multiprocessing as mp
import os
import random
import resource
import signal
import struct
import time
import traceback

import common
import isa
import elfgen as EG
import fmtgen as FG
import c14
from common import zlit, clist

LEVEL = "proof"
SAMPLES = c14.SAMPLES
TIME_LIMIT = 8.0
MEM_JUMP_MB = 400


class CaseTimeout(BaseException):
    pass


_ARMED = [False]


def _alarm(signum, frame):
    # the timer is periodic (see identify): a CaseTimeout that a bare `except:` of a parser swallows is raised again
    if _ARMED[0]:
        raise CaseTimeout()


def magic_of(b):
    """format names whose magic prefix the input carries (harness-side table, same as the Coq one)"""
    out = []
    for name, ms in MAGICS.items():
        if any(b[:len(m)] == m for m in ms):
            out.append(name)
    return out


MAGICS = {}


def live_magics():
    from amoco.system import elf, pe, macho, coff
    from amoco.system.structs import Consts
    M = {}
    M["Elf"] = [bytes([0x7F]) + b"ELF"]
    M["PE"] = [b"MZ"]
    M["MachO"] = [struct.pack("<I", m) for m in (macho.MH_MAGIC, macho.MH_MAGIC_64, macho.FAT_CIGAM)]
    M["COFF"] = [struct.pack("<H", m) for m in sorted(Consts.All["f_magic"].keys())]
    M["HEX"] = [b":"]
    M["SREC"] = [b"S"]
    return M


def site_of(x):
    tb = traceback.extract_tb(x.__traceback__)
    fr = [f for f in tb if "/amoco/" in f.filename]
    if not fr:
        return "?"
    f = fr[-1]
    return "%s:%s" % (os.path.basename(f.filename), f.name)


def identify(b):
    """(outcome, seconds, rss jump MB)"""
    from amoco.system.core import read_program
    r0 = resource.getrusage(resource.RUSAGE_SELF).ru_maxrss
    t0 = time.process_time()
    _ARMED[0] = True
    signal.setitimer(signal.ITIMER_PROF, TIME_LIMIT + 4, 0.25)
    try:
        try:
            p = read_program(b)
            out = ("ok", type(p).__name__)
        except CaseTimeout:
            _ARMED[0] = False
            out = ("timeout", "")
        except MemoryError as x:
            _ARMED[0] = False
            out = ("exc", "MemoryError", site_of(x))
        except BaseException as x:
            _ARMED[0] = False
            out = ("exc", type(x).__name__, site_of(x))
        finally:
            _ARMED[0] = False
            signal.setitimer(signal.ITIMER_PROF, 0)
    except CaseTimeout:
        # a second tick between the first one and the disarming
        _ARMED[0] = False
        signal.setitimer(signal.ITIMER_PROF, 0)
        out = ("timeout", "")
    dt = time.process_time() - t0
    r1 = resource.getrusage(resource.RUSAGE_SELF).ru_maxrss
    return out, dt, (r1 - r0) / 1024.0


def hot_stage(b, after=3.0):
    """where read_program is after `after` seconds of CPU time: the parsing stage right below the constructor"""
    from amoco.system.core import read_program
    _ARMED[0] = True
    signal.setitimer(signal.ITIMER_PROF, after, 0.25)
    try:
        read_program(b)
        return "?"
    except CaseTimeout as x:
        _ARMED[0] = False
        tb = [f for f in traceback.extract_tb(x.__traceback__) if "/amoco/" in f.filename]
        names = ["%s:%s" % (os.path.basename(f.filename), f.name) for f in tb]
        if "pe.py:loadsegment" in names:
            # root cause shared by every PE table reader (imports, TLS, load config): getdata materialises the section
            # padded to its (corrupted) VirtualSize
            return "pe.py:loadsegment"
        for i, n in enumerate(names):
            if n.endswith(":__parse") and i + 1 < len(names):
                # a record constructed straight from the walk in __parse (StructCore.__new__ / the record's __init__ / unpack,
                # whichever the timer happens to hit) is not a stage of its own: the walk is
                if names[i + 1].split(":")[1] in ("__new__", "__init__", "unpack"):
                    return n
                return names[i + 1]
        return names[-1] if names else "?"
    except BaseException:
        return "?"
    finally:
        _ARMED[0] = False
        signal.setitimer(signal.ITIMER_PROF, 0)


def remeasure(b):
    """one input alone in a fresh worker: (outcome, CPU seconds, finding key)"""
    signal.signal(signal.SIGPROF, _alarm)
    resource.setrlimit(resource.RLIMIT_AS, (4 << 30, 4 << 30))
    # CPU time on a shared machine only errs upwards (page faults of a deep recursion cost up to a millisecond each when
    # memory is contended): the fastest of up to three runs counts
    for attempt in range(3):
        o, dt, jump = identify(b)
        if not (o[0] == "timeout" or dt > TIME_LIMIT):
            return o, dt, None
    return o, dt, "time|%s" % hot_stage(b)


def gen_inputs(seed, n, files):
    """yields (tag, bytes, expected format name or None)"""
    rng = random.Random(seed)
    pres = [b"\x7fELF", b"MZ", b"\xcf\xfa\xed\xfe", b"\xce\xfa\xed\xfe", b":", b"S1", b"\xca\xfe\xba\xbe", b"\x4c\x01", b"\x7fELF\x02\x02\x01",
            b"\x7fELF\x01\x01\x01", b"MZ" + b"\0" * 58 + b"\x40\0\0\0PE\0\0"]
    for k in range(n):
        c = rng.random()
        if c < 0.12:
            yield "random", rng.randbytes(rng.randrange(0, 400)), None
        elif c < 0.24:
            yield "magic+random", rng.choice(pres) + rng.randbytes(rng.randrange(0, 400)), None
        elif c < 0.62:
            f, b = rng.choice(files)
            cc = rng.random()
            if cc < 0.35:
                cut = rng.randrange(0, len(b)) if rng.random() < 0.5 else rng.randrange(0, min(len(b), 600))
                yield "trunc:" + f, b[:cut], None
            else:
                m = bytearray(b)
                for _ in range(rng.randrange(1, 6)):
                    i = rng.randrange(0, min(len(b), 2048)) if rng.random() < 0.7 else rng.randrange(0, len(b))
                    m[i] = rng.choice([0, 0xFF, rng.randrange(256), m[i] ^ (1 << rng.randrange(8))])
                yield "corrupt:" + f, bytes(m), None
        else:
            kind = rng.choice(["elf", "elf", "pe", "macho", "hex", "srec"])
            if kind == "elf":
                s = EG.Synth(rng, exotic=rng.random() < 0.3)
                b, want = s.image, "Elf"
            elif kind == "pe":
                spe = FG.SynthPE(rng, imports=rng.random() < 0.6)
                b, want = spe.image, "PE"
                if spe.import_fields and rng.random() < 0.6:
                    # an RVA-valued field of the import tables set to a value outside the image / inside the headers / odd
                    m = bytearray(b)
                    soi = spe.opt["SizeOfImage"]
                    for _ in range(rng.choice([1, 1, 2])):
                        off, w, what = rng.choice(spe.import_fields)
                        v = rng.choice([0, 1, 0x10, soi - 1, soi, soi + 0x1090, 0xF01090, 0x7FFFFFFF, 0xFFFFFFFF, spe.sections[-1]["RVA"] + spe.sections[-1]["VirtualSize"] - 1,
                                        rng.getrandbits(32), rng.getrandbits(20)])
                        m[off:off + w] = (v & ((1 << (8 * w)) - 1)).to_bytes(w, "little")
                    yield "corrupt-import:pe", bytes(m), None
                    continue
            elif kind == "macho":
                b, want = FG.SynthMachO(rng).image, "MachO"
            elif kind == "hex":
                b, want = FG.gen_hex(rng)[0], "HEX"
            else:
                b, want = FG.gen_srec(rng)[0], "SREC"
            if kind in ("hex", "srec") and rng.random() < 0.35:
                # grammar-aware damage: one record gets fewer / more payload bytes than its count field says (or an odd count),
                # and its checksum is recomputed so that the line passes every check made before the fields are interpreted
                lines = b.split(b"\n")
                idx = [i for i, l in enumerate(lines) if len(l.strip()) >= 10]
                pref = [i for i in idx if (kind == "hex" and lines[i].strip()[7:9] in (b"02", b"03", b"04", b"05")) or
                        (kind == "srec" and lines[i].strip()[1:2] in (b"0", b"5", b"7", b"8", b"9"))]
                if idx:
                    i = rng.choice(pref if pref and rng.random() < 0.7 else idx)
                    l = lines[i].strip()
                    try:
                        raw = bytearray(bytes.fromhex(l[1:].decode() if kind == "hex" else l[2:].decode()))
                        body = raw[:-1]
                        nhead = 4 if kind == "hex" else 1
                        c = rng.random()
                        if c < 0.5 and len(body) > nhead:
                            del body[len(body) - rng.randrange(1, min(3, len(body) - nhead) + 1):]
                        elif c < 0.7:
                            body += rng.randbytes(rng.randrange(1, 3))
                        else:
                            body[0] = rng.choice([0, 1, 3, body[0] + 1 & 0xFF, 0xFF])
                        ck = (-sum(body)) & 0xFF if kind == "hex" else (0xFF - (sum(body) & 0xFF))
                        lines[i] = (b":" if kind == "hex" else l[:2]) + bytes(body + bytes([ck])).hex().upper().encode()
                        yield "restructured:" + kind, b"\n".join(lines), None
                        continue
                    except Exception:
                        pass
            cc = rng.random()
            if cc < 0.3:
                yield "valid:" + kind, b, want
            elif cc < 0.55:
                yield "trunc:" + kind, b[:rng.randrange(0, len(b))], None
            else:
                m = bytearray(b)
                # single fields set to boundary values / a few bytes damaged
                for _ in range(rng.randrange(1, 5)):
                    i = rng.randrange(0, len(m))
                    w = rng.choice([1, 2, 4, 8])
                    v = rng.choice([b"\0" * w, b"\xff" * w, rng.randbytes(w), (1 << (8 * w - 1)).to_bytes(w, "little")])
                    m[i:i + w] = v
                yield "corrupt:" + kind, bytes(m[:len(b)]), None


# A fat file whose arch entry designates the fat header again with a size that covers the whole file is parsed recursively
# until the interpreter's recursion limit; every level parses the intact slices listed before that entry again.  With the
# shipped samples (or the larger synthesised images) as slices this alone costs 3-8 s of CPU time on the unchanged tree
# (reported, not yet triaged), so self-referencing values are only written into files made of tiny slices unless this is set.
FAT_SELFREF_HEAVY = False
SKIP_AFTER_TIMEOUTS = 2     # per worker: further inputs of a family (family_of) are skipped after that many of them ran into the timer


def srec_header_cases(rng, quick):
    """S-record files whose S0 (header) record carries an arbitrary payload - the record layout puts no constraint on the
    bytes of a header - valid, and with one later record damaged.  Expected outcome from the independent validator
    FG.srec_file_valid: SREC for a valid file, the raw fallback otherwise."""
    payloads = [("byte", bytes([v])) for v in range(256)] + [("empty", b"")]
    for k in range(40 if quick else 600):
        c = rng.random()
        if c < 0.4:
            # the documented layout mname[20] ver[2] rev[2] description[0-36]; version / revision are often binary
            mname = bytes(rng.choice(b"abcdefghijklmnopqrstuvwxyz0123456789_-. ") for _ in range(rng.randrange(0, 21)))
            pad = rng.choice([b" ", b"\0"])
            ver = rng.choice([rng.randbytes(2), bytes([rng.randrange(0x80, 0x100), rng.randrange(256)]), b"01"])
            rev = rng.choice([rng.randbytes(2), bytes([rng.randrange(256), rng.randrange(0x80, 0x100)]), b"\0\1"])
            desc = rng.choice([b"", rng.randbytes(rng.randrange(0, 37)), bytes(rng.choice(b"abc xyz") for _ in range(rng.randrange(0, 37)))])
            payloads.append(("layout", mname.ljust(20, pad) + ver + rev + desc))
        elif c < 0.75:
            payloads.append(("binary", rng.randbytes(rng.choice([1, 2, 3, 4, 8, 16, 32, rng.randrange(1, 253), 252]))))
        elif c < 0.9:
            # text in some encoding, complete or cut inside a multi-byte sequence
            t = "".join(rng.choice("abé€ñü漢字𝄞 ") for _ in range(rng.randrange(1, 20)))
            e = t.encode(rng.choice(["utf-8", "utf-8", "latin-1", "utf-16-le", "utf-16", "cp1252"]), "replace")
            payloads.append(("text", e[:rng.randrange(1, len(e) + 1)][:252]))
        else:
            payloads.append(("fill", bytes([rng.choice([0, 0x20, 0x7F, 0x80, 0xC0, 0xE0, 0xF0, 0xF8, 0xFE, 0xFF])]) * rng.randrange(1, 253)))
    for what, pl in payloads:
        txt, recs, entry, lines = FG.gen_srec(rng)
        lines = list(lines)
        lines[0] = FG.srecline(0, rng.choice([0, 0, 0, rng.getrandbits(16)]), pl)
        if rng.random() < 0.15:
            # a second header record further down
            lines.insert(rng.randrange(1, len(lines)), FG.srecline(0, 0, rng.randbytes(rng.randrange(0, 20))))
        if rng.random() < 0.3:
            lines = [l.lower().replace(b"s", b"S", 1) if rng.random() < 0.5 else l for l in lines]
        eol = rng.choice([b"\n", b"\r\n"])
        good = eol.join(lines) + rng.choice([eol, eol, b"", eol + eol])
        if FG.srec_file_valid(good):
            yield "srec-header:" + what, good, "SREC"
        # one later line damaged
        i = rng.randrange(1, len(lines))
        l = bytearray(lines[i])
        c = rng.random()
        if c < 0.3:
            j = len(l) - 1 - rng.randrange(2)
            l[j] = rng.choice([x for x in b"0123456789ABCDEF" if bytes([x]).upper() != bytes([l[j]]).upper()])
        elif c < 0.5:
            l[rng.randrange(2, len(l))] = rng.choice(b"GZ:S")
        elif c < 0.7:
            del l[len(l) - rng.choice([1, 2, 3, 4]):]
        elif c < 0.85:
            cnt = int(bytes(l[2:4]), 16)
            l[2:4] = b"%02X" % ((cnt + rng.choice([1, -1, 2])) & 255)
        else:
            l[1:2] = rng.choice([b"4", b"A", b"s", b"x"])
        bad_lines = lines[:i] + [bytes(l)] + lines[i + 1:]
        bad = eol.join(bad_lines) + eol
        if not FG.srec_file_valid(bad):
            yield "srec-header-damaged:" + what, bad, "shellcode"


def fat_cases(rng, files, quick):
    """universal (fat) Mach-O files of 1-4 thin slices: intact; every non-empty subset of the offset / size fields of the arch
    table overwritten (all with 0 - an entry that designates the fat header again - and with boundary values); nfat_arch
    varied; truncated.  Only intact files carry an expected format; all others must just be identified within the limits."""
    thin = [b for f, b in files if b[:4] in (b"\xcf\xfa\xed\xfe", b"\xce\xfa\xed\xfe")]

    def tiny(n, minimal=False):
        return [FG.tiny_macho(rng, rng.random() < 0.5, minimal) for _ in range(n)]

    def heavy(n):
        return [rng.choice(thin) if thin and rng.random() < 0.5 else FG.SynthMachO(rng).image for _ in range(n)]

    def bad_value(img, fields, n, j, selfref):
        own_off, own_size = struct.unpack_from(">II", img, fields[j // 2][0])
        L, tab = len(img), 8 + 20 * n
        other = struct.unpack_from(">I", img, fields[rng.randrange(n)][0])[0]
        if j % 2 == 0:
            vs = [8, tab - 4, tab, own_off + 1, own_off - 1, other, L - 1, L, L + 1, 0x7FFFFFFF, 0x80000000, 0xFFFFFFFF, rng.getrandbits(32), rng.randrange(L)]
            if selfref:
                vs += [0, 0, 0]
        else:
            vs = [0, 1, 7, tab - 1, tab, own_size - 1, own_size + 1, L - own_off + 1, L, L + 1, 0x7FFFFFFF, 0xFFFFFFFF, rng.getrandbits(32), rng.randrange(L)]
        return rng.choice(vs) & 0xFFFFFFFF

    # intact files
    for n in (1, 2, 3, 4):
        for mk in (tiny, heavy):
            for _ in range(1 if quick else 6):
                img, fields = FG.fat_image(mk(n), rng.choice([2, 4, 12]) if mk is tiny else rng.choice([3, 12, 14]))
                yield "fat-valid", img, "MachO"
    # every subset of the offset / size fields, tiny slices
    for rep in range(1 if quick else 8):
        for n in (1, 2, 3, 4):
            # (a self-referencing entry makes the parser descend to the recursion limit and parse the slices listed before
            # it at every level: with 2-3 such slices they are kept minimal, so that this costs a fraction of a second)
            img, fields = FG.fat_image(tiny(n, minimal=n >= 3), rng.choice([2, 4, 6]))
            flat = [p for pair in fields for p in pair]
            for mask in range(1, 1 << (2 * n)):
                for mode in ("zero", "bad"):
                    m = bytearray(img)
                    for j in range(2 * n):
                        if mask >> j & 1:
                            struct.pack_into(">I", m, flat[j], 0 if mode == "zero" else bad_value(img, fields, n, j, True))
                    yield "fat-fields", bytes(m), None
    # larger slices (synthesised images and the shipped samples)
    for rep in range(60 if quick else 1500):
        n = rng.randrange(1, 5)
        img, fields = FG.fat_image(heavy(n), rng.choice([3, 12, 12, 14]))
        flat = [p for pair in fields for p in pair]
        m = bytearray(img)
        c = rng.random()
        if c < 0.55:
            mask = rng.randrange(1, 1 << (2 * n))
            for j in range(2 * n):
                if mask >> j & 1:
                    struct.pack_into(">I", m, flat[j], bad_value(img, fields, n, j, FAT_SELFREF_HEAVY))
            yield "fat-fields-large", bytes(m), None
        elif c < 0.8:
            struct.pack_into(">I", m, 4, rng.choice([0, 1, max(n - 1, 0), n + 1, 2 * n, 5, 255, 0x10000, 0x7FFFFFFF, 0xFFFFFFFF, rng.getrandbits(32)]))
            yield "fat-nfat", bytes(m), None
        else:
            cuts = [rng.randrange(0, 8 + 20 * n + 1), rng.randrange(len(img))]
            for a, z in fields:
                o, sz = struct.unpack_from(">II", img, a)
                cuts += [o - 1, o, o + 1, o + 28, o + 32, o + sz - 1]
            yield "fat-trunc", img[:max(0, rng.choice(cuts))], None
    # nfat_arch and truncations on tiny slices: every prefix of one file, nfat_arch with and without damaged fields
    for n in ((2, 3) if quick else (1, 2, 3, 4)):
        img, fields = FG.fat_image(tiny(n), 2)
        for cut in range(len(img)):
            yield "fat-trunc", img[:cut], None
        flat = [p for pair in fields for p in pair]
        for v in (0, 1, n - 1, n + 1, 2 * n, 255, 0x10000, 0x7FFFFFFF, 0x80000000, 0xFFFFFFFF):
            for dmg in (False, True):
                m = bytearray(img)
                struct.pack_into(">I", m, 4, v)
                if dmg:
                    mask = rng.randrange(1, 1 << (2 * n))
                    for j in range(2 * n):
                        if mask >> j & 1:
                            struct.pack_into(">I", m, flat[j], rng.choice([0, bad_value(img, fields, n, j, True)]))
                yield "fat-nfat", bytes(m), None
    # a slice that is itself a fat file (not a valid universal binary: no expectation)
    for rep in range(4 if quick else 40):
        inner, _ = FG.fat_image(tiny(rng.randrange(1, 3)), 2)
        sl = tiny(rng.randrange(0, 3))
        sl.insert(rng.randrange(len(sl) + 1), inner)
        img, fields = FG.fat_image(sl, rng.choice([2, 4]))
        yield "fat-nested", img, None


# Table descriptors.  A table inside an executable is described by several header fields at once - where it starts, how many
# entries it has, how large an entry is (and, for ELF, the fields of the null section header that take over when the 16-bit
# count overflows).  Every parser walks "count entries of entsize bytes from offset", so what a hostile file controls is the
# *combination*: the families below rewrite those fields together on well-formed images of a few hundred bytes.  None of the
# damaged files carries an expectation beyond the property's: the format's object or the raw fallback, no foreign exception,
# CPU time and memory within the limits.
#
# A walk of the full 16-bit count with a zero entry size (the same entry read 65535 times) is bounded, but on the unchanged
# tree it costs 4-7 s of CPU time and about 250 MB for a 400-byte ELF file - inside the limits, close enough to them to trip
# the timer on a loaded machine (reported, not yet triaged).  Unless this is set, that one combination is generated with the
# count 0x0FFF instead of 0xFFFF (every other combination keeps 0xFFFF).
ELF_MAXCOUNT_ZERO_STRIDE = False


def elf_table_cases(rng, quick):
    """tiny well-formed ELF images of every class / byte order; all combinations of
         count    {0, 1, 0xFFFF, random}
       x entsize  {0, 1, true - 1, true, true + 1, 0xFFFF}
       x offset   {0, inside the ELF header, true, second entry of the table, last bytes of the file, beyond the end}
     for the section header table (e_shnum, e_shentsize, e_shoff) - where the offset designates an entry of the table, also
       x the extended-numbering fields of that entry (sh_size, sh_link, sh_info) {unchanged, largest positive, all ones}
     with e_shstrndx one of {true, 0, SHN_XINDEX, count, random} - and for the program header table (e_phnum, e_phentsize,
     e_phoff; e_phnum 0xFFFF is PN_XNUM); then samples with both tables damaged at once."""
    for rep in range(1 if quick else 6):
        for cls in (32, 64):
            for order in "<>":
                t = EG.Tiny(rng, cls, order)
                L, mx = len(t.image), (1 << cls) - 1
                yield "tbl-elf-intact", t.image, "Elf"
                she, phe, ehs = t.esz["shdr"], t.esz["phdr"], t.ehdr["e_ehsize"]
                nulls = [None, dict(sh_size=mx >> 1, sh_link=0x7FFFFFFF, sh_info=0x7FFFFFFF), dict(sh_size=mx, sh_link=0xFFFFFFFF, sh_info=0xFFFFFFFF)]

                def sizes(true):
                    return [0, 1, true - 1, true, true + 1, 0xFFFF]

                def count(c, ent, off, esz):
                    if c == 0xFFFF and ent == 0 and 0 < off <= L - esz and not ELF_MAXCOUNT_ZERO_STRIDE:
                        return 0x0FFF
                    return c

                def sh_fields(cnt, ent, oname):
                    off = {"zero": 0, "header": rng.choice([1, 4, 16, 24, ehs - 2]), "true": t.offs["shdr"], "second": t.offs["shdr"] + she,
                           "tail": L - rng.randrange(1, she), "beyond": rng.choice([L, L + 1, L + she, 0x7FFFFFFF, mx])}[oname]
                    c = rng.randrange(2, 0x400) if cnt is None else cnt
                    ndx = rng.choice([t.ehdr["e_shstrndx"], t.ehdr["e_shstrndx"], 0, 0xFFFF, c & 0xFFFF, rng.getrandbits(16)])
                    return dict(e_shnum=count(c, ent, off, she), e_shentsize=ent, e_shoff=off, e_shstrndx=ndx)

                def ph_fields(cnt, ent, oname):
                    off = {"zero": 0, "header": rng.choice([1, 4, 16, 24, ehs - 2]), "true": t.offs["phdr"], "tail": L - rng.randrange(1, phe),
                           "beyond": rng.choice([L, L + 1, L + phe, 0x7FFFFFFF, mx])}[oname]
                    c = rng.randrange(2, 0x400) if cnt is None else cnt
                    return dict(e_phnum=count(c, ent, off, phe), e_phentsize=ent, e_phoff=off)

                for cnt in (0, 1, 0xFFFF, None):
                    for ent in sizes(she):
                        for oname in ("zero", "header", "true", "second", "tail", "beyond"):
                            for null in (nulls if oname in ("true", "second") else nulls[:1]):
                                img = t.with_ehdr(**sh_fields(cnt, ent, oname))
                                if null:
                                    img = t.with_shdr(1 if oname == "second" else 0, img, **null)
                                yield "tbl-elf-sh", img, None
                for cnt in (0, 1, 0xFFFF, None):
                    for ent in sizes(phe):
                        for oname in ("zero", "header", "true", "tail", "beyond"):
                            yield "tbl-elf-ph", t.with_ehdr(**ph_fields(cnt, ent, oname)), None
                for k in range(40 if quick else 200):
                    fs = sh_fields(rng.choice([0, 1, 0xFFFF, None]), rng.choice(sizes(she)), rng.choice(["zero", "header", "true", "second", "tail", "beyond"]))
                    fs.update(ph_fields(rng.choice([0, 1, 0xFFFF, None]), rng.choice(sizes(phe)), rng.choice(["zero", "header", "true", "tail", "beyond"])))
                    img = t.with_ehdr(**fs)
                    null = rng.choice(nulls)
                    if null:
                        img = t.with_shdr(rng.choice([0, 0, 1]), img, **null)
                    yield "tbl-elf-both", img, None


def pe_table_cases(rng, quick):
    """tiny PE32 / PE32+ images: all combinations of NumberOfSections {0, 1, 0xFFFF, random} x SizeOfOptionalHeader (it places
    the section table) {0, 1, true - 1, true, true + 1, 0xFFFF} x e_lfanew {0, inside the DOS header, true, last bytes, beyond
    the end}; then samples where NumberOfRvaAndSizes, the (RVA, size) pairs of the directories that are followed when the file
    is opened (export, import, TLS, load configuration), SizeOfImage / SizeOfHeaders and the section count are damaged together
    (the section table is neither moved nor extended into the raw data there: a directory that lands in a section header read
    from the wrong place is the known VirtualSize finding, time|pe.py:loadsegment, at 15 s per input)."""
    for rep in range(1 if quick else 6):
        for plus in (False, True):
            img, fields, true = FG.tiny_pe(rng, plus)
            L = len(img)
            yield "tbl-pe-intact", img, "PE"
            for cnt in (0, 1, 0xFFFF, None):
                for osz in (0, 1, true["SizeOfOptionalHeader"] - 1, true["SizeOfOptionalHeader"], true["SizeOfOptionalHeader"] + 1, 0xFFFF):
                    for oname in ("zero", "header", "true", "tail", "beyond"):
                        off = {"zero": 0, "header": rng.randrange(1, 60), "true": true["e_lfanew"], "tail": L - rng.randrange(1, 24),
                               "beyond": rng.choice([L, L + 1, 0x7FFFFFFF, 0xFFFFFFFF])}[oname]
                        yield "tbl-pe-sections", FG._setfields(img, fields, {"NumberOfSections": rng.randrange(3, 0x400) if cnt is None else cnt,
                                                                             "SizeOfOptionalHeader": osz, "e_lfanew": off}), None
            soi, rvas = true["SizeOfImage"], true["rvas"]
            for k in range(120 if quick else 1500):
                v = {"NumberOfRvaAndSizes": rng.choice([0, 1, 2, 10, 11, 15, 16, 16, 16, 17, 0xFFFF, 0x7FFFFFFF, 0xFFFFFFFF, rng.getrandbits(32)])}
                for d in rng.sample([0, 1, 9, 10], rng.randrange(1, 4)):
                    v["dir%d.rva" % d] = rng.choice([0, 1, 0x3C, true["SizeOfHeaders"] - 1, rvas[0], rvas[1], rvas[1] + 31, soi - 1, soi, soi + 1,
                                                     0x7FFFFFFF, 0xFFFFFFFF, rng.randrange(soi), rng.getrandbits(32)])
                    v["dir%d.size" % d] = rng.choice([0, 1, 20, 40, soi, 0xFFFF, 0x7FFFFFFF, 0xFFFFFFFF, rng.getrandbits(32)])
                if rng.random() < 0.4:
                    v["SizeOfImage"] = rng.choice([0, 1, soi - 1, 0x7FFFFFFF, 0xFFFFFFFF])
                if rng.random() < 0.4:
                    v["SizeOfHeaders"] = rng.choice([0, 1, L, 0x7FFFFFFF, 0xFFFFFFFF])
                if rng.random() < 0.3:
                    v["NumberOfSections"] = rng.choice([0, 1, 0xFFFF])
                yield "tbl-pe-directories", FG._setfields(img, fields, v), None


def macho_table_cases(rng, quick):
    """tiny thin Mach-O images with a segment (one section), LC_SYMTAB and LC_UUID: all combinations of ncmds {0, 1, 0xFFFF,
    random, all ones} x sizeofcmds {0, 1, true - 1, true, true + 1, largest positive, all ones} x cmdsize of the first command
    {0, 1, 7, 8, true - 1, true, true + 1, all ones}; then samples where nsects and the LC_SYMTAB descriptors (symoff, nsyms,
    stroff, strsize) and the cmdsize of any command are damaged together."""
    for rep in range(1 if quick else 6):
        for is64 in (False, True):
            img, fields, true = FG.tiny_macho_tables(rng, is64)
            L = len(img)
            yield "tbl-macho-intact", img, "MachO"
            c0 = true["cmdsize"][0]
            for ncmds in (0, 1, 0xFFFF, None, 0xFFFFFFFF):
                for soc in (0, 1, true["sizeofcmds"] - 1, true["sizeofcmds"], true["sizeofcmds"] + 1, 0x7FFFFFFF, 0xFFFFFFFF):
                    for cs in (0, 1, 7, 8, c0 - 1, c0, c0 + 1, 0xFFFFFFFF):
                        yield "tbl-macho-cmds", FG._setfields(img, fields, {"ncmds": rng.randrange(2, 0x400) if ncmds is None else ncmds, "sizeofcmds": soc,
                                                                            "cmd0.cmdsize": cs}), None

            def offset():
                return rng.choice([0, rng.randrange(1, 28), true["symoff"], true["stroff"], L - rng.randrange(1, 12), L, L + 1, 0x7FFFFFFF, 0xFFFFFFFF])
            for k in range(120 if quick else 1500):
                v = {}
                if rng.random() < 0.5:
                    v["nsects"] = rng.choice([0, 2, 3, 0xFFFF, 0x7FFFFFFF, 0xFFFFFFFF])
                if rng.random() < 0.8:
                    v.update(symoff=offset(), nsyms=rng.choice([0, 1, 2, 3, 0xFFFF, 0x7FFFFFFF, 0xFFFFFFFF, rng.randrange(3, 0x400)]))
                if rng.random() < 0.6:
                    v.update(stroff=offset(), strsize=rng.choice([0, 1, true["strsize"] - 1, true["strsize"] + 1, 0xFFFF, 0x7FFFFFFF, 0xFFFFFFFF]))
                if rng.random() < 0.4 or not v:
                    j = rng.randrange(3)
                    v["cmd%d.cmdsize" % j] = rng.choice([0, 1, 7, 8, true["cmdsize"][j] - 1, true["cmdsize"][j] + 1, true["cmdsize"][j] + 8, 0x7FFFFFFF, 0xFFFFFFFF])
                if rng.random() < 0.3:
                    v["sizeofcmds"] = rng.choice([0, 1, true["sizeofcmds"] - 8, true["sizeofcmds"] + 8, 0xFFFFFFFF])
                yield "tbl-macho-tables", FG._setfields(img, fields, v), None


def coff_table_cases(rng, quick):
    """tiny System V COFF files with and without the optional header: all combinations of f_nscns {0, 1, 0xFFFF, random} x
    f_opthdr (it places the section table) {0, 1, true - 1, true, true + 1, 0xFFFF} x f_nsyms {0, 1, true, largest positive,
    -1}; then samples where the relocation / line number / raw data descriptors of a section header (count, file pointer,
    size) and the symbol table descriptors are damaged together.  (The intact files carry no expectation: amoco's reader takes
    the symbol table to follow the section headers and cannot read line number entries - both reported.)"""
    for rep in range(1 if quick else 6):
        for opthdr in (False, True):
            img, fields, true = FG.tiny_coff(rng, opthdr)
            L = len(img)
            yield "tbl-coff-intact", img, None
            for cnt in (0, 1, 0xFFFF, None):
                for osz in sorted({0, 1, max(true["f_opthdr"] - 1, 0), true["f_opthdr"], true["f_opthdr"] + 1, 0xFFFF}):
                    for nsyms in (0, 1, true["f_nsyms"], 0x7FFFFFFF, 0xFFFFFFFF):
                        yield "tbl-coff-sections", FG._setfields(img, fields, {"f_nscns": rng.randrange(3, 0x400) if cnt is None else cnt, "f_opthdr": osz,
                                                                               "f_nsyms": nsyms}), None

            def pointer():
                return rng.choice([0, rng.randrange(1, 20), true["section_table"], L - rng.randrange(1, 10), L, L + 1, 0x7FFFFFFF, 0x80000000, 0xFFFFFFFF,
                                   rng.randrange(L)])
            for k in range(120 if quick else 1500):
                v = {}
                for i in rng.sample([0, 1], rng.randrange(1, 3)):
                    if rng.random() < 0.7:
                        v.update({"sec%d.s_nreloc" % i: rng.choice([0, 1, 2, 0xFFFF, rng.randrange(2, 0x400)]), "sec%d.s_relptr" % i: pointer()})
                    if rng.random() < 0.4:
                        v.update({"sec%d.s_nlnno" % i: rng.choice([0, 0, 2, 0xFFFF]), "sec%d.s_lnnoptr" % i: pointer()})
                    if rng.random() < 0.5:
                        v.update({"sec%d.s_size" % i: rng.choice([0, 1, L, 0x7FFFFFFF, 0xFFFFFFFF]), "sec%d.s_scnptr" % i: pointer()})
                if rng.random() < 0.5:
                    v.update(f_symptr=pointer(), f_nsyms=rng.choice([0, 1, 3, 0xFFFF, 0x7FFFFFFF, 0xFFFFFFFF]))
                if rng.random() < 0.3:
                    v["f_nscns"] = rng.choice([0, 1, 3, 0xFFFF])
                yield "tbl-coff-tables", FG._setfields(img, fields, v), None


def table_cases(rng, quick):
    yield from elf_table_cases(rng, quick)
    yield from pe_table_cases(rng, quick)
    yield from macho_table_cases(rng, quick)
    yield from coff_table_cases(rng, quick)


def family_of(kind):
    """inputs of one family share the parsing stage they exercise: once SKIP_AFTER_TIMEOUTS of them ran into the timer in a
    worker, the rest of the family is skipped there (each costs 15 s)"""
    if kind.startswith("fat"):
        return "fat"
    if kind.startswith("tbl-"):
        return "-".join(kind.split("-")[:2])
    return None


def gen_structured(seed, files, quick):
    """deterministic per seed; worker i takes the cases whose index is i modulo the number of workers"""
    rng = random.Random(seed * 7919 + 20)
    yield from srec_header_cases(rng, quick)
    yield from fat_cases(rng, files, quick)
    # (own generator: the cases above stay what they were for a given seed)
    yield from table_cases(random.Random(seed * 7919 + 2020), quick)


def worker(args):
    seed, n, files, shard, nshards, base_seed, quick = args
    signal.signal(signal.SIGPROF, _alarm)
    resource.setrlimit(resource.RLIMIT_AS, (4 << 30, 4 << 30))
    out = {"n": 0, "finds": {}, "hist": {}, "outcomes": {}, "valid": 0, "samples": [], "skipped": 0}
    structured = (c for i, c in enumerate(gen_structured(base_seed, files, quick)) if i % nshards == shard)
    timeouts = {}
    for tag, b, want in itertools.chain(structured, gen_inputs(seed, n, files)):
        kind = tag.split(":")[0]
        fam = family_of(kind)
        if fam and sum(v for (k, _), v in timeouts.items() if family_of(k) == fam) >= SKIP_AFTER_TIMEOUTS:
            # already failing: do not spend 12 s on each further input of the family
            out["skipped"] += 1
            continue
        out["n"] += 1
        out["hist"][kind] = out["hist"].get(kind, 0) + 1
        o, dt, jump = identify(b)
        key = None
        if o[0] == "exc":
            key = "leak|%s|%s" % (o[2], o[1])
            what = "read_program raised %s (at %s) on %s" % (o[1], o[2], tag)
        elif o[0] == "timeout" or dt > TIME_LIMIT:
            key = "time|%s" % hot_stage(b)
            if dt > TIME_LIMIT + 3.5:
                timeouts[(kind, key)] = timeouts.get((kind, key), 0) + 1
            what = "read_program used more than %.0f s of CPU time on %s (%d bytes) [%s, %.1f s]" % (TIME_LIMIT, tag, len(b), o[0], dt)
        elif jump > MEM_JUMP_MB:
            key = "memory|%s" % (o[1] if o[0] == "ok" else "?")
            what = "read_program grew the process by %.0f MB on a %d-byte input (%s)" % (jump, len(b), tag)
        elif o[0] == "ok":
            name = o[1]
            out["outcomes"][name] = out["outcomes"].get(name, 0) + 1
            if want == "shellcode":
                if name != want:
                    key = "invalid-accepted|%s" % name
                    what = "a file that starts like an S-record file but has a malformed record (%s) is identified as %s instead of the raw fallback" % (tag, name)
            elif want is not None:
                out["valid"] += 1
                if name != want:
                    key = "cross-claim|%s-as-%s" % (want, name)
                    what = "a valid %s file (%s) is identified as %s" % (want, tag, name)
            if key is None and name in MAGICS and name not in magic_of(b.lstrip() if name in ("HEX", "SREC") else b):
                key = "magic|%s" % name
                what = "%s recognised an input that does not carry its magic prefix (%s)" % (name, b[:8].hex())
        if key and key not in out["finds"]:
            out["finds"][key] = {"what": what, "input": b.hex() if len(b) <= 300000 else None, "tag": tag, "length": len(b)}
        if len(out["samples"]) < 1 and want:
            out["samples"].append({"tag": tag, "length": len(b), "outcome": o[1]})
    return out


GARBAGE = b"0123456789ABCDEFabcdef:SGZ"


def line_part(run, quick):
    """arbitrary corrupted HEX / SREC lines (restricted alphabet, see assumptions) vs the complete line model"""
    rng = random.Random(run.seed * 3571 + 20)
    hexrows, srecrows, hm, sm = [], [], [], []
    for n in range(900 if quick else 12000):
        c = rng.random()
        if c < 0.5:
            txt, recs, entry, lines = FG.gen_hex(rng)
        else:
            txt, recs, entry, lines = FG.gen_srec(rng)
        l = bytearray(rng.choice(lines))
        cc = rng.random()
        if cc < 0.3:
            for _ in range(rng.randrange(1, 4)):
                l[rng.randrange(len(l))] = rng.choice(GARBAGE)
        elif cc < 0.5:
            l = l[:rng.randrange(1, len(l))]
        elif cc < 0.65:
            i = rng.randrange(1, len(l))
            l[i:i] = bytes(rng.choice(GARBAGE) for _ in range(rng.randrange(1, 4)))
        elif cc < 0.85:
            # a consistent record with a wrong count / type field and a repaired checksum
            try:
                if l[:1] == b":":
                    body = bytearray(bytes.fromhex(l[1:-2].decode()))
                    body[rng.choice([0, 3])] = rng.choice([0, 1, 2, 3, 4, 5, 6, rng.randrange(256)])
                    l = bytearray(b":" + (bytes(body) + bytes([(-sum(body)) & 255])).hex().upper().encode())
                else:
                    body = bytearray(bytes.fromhex(l[2:-2].decode()))
                    body[0] = rng.choice([0, 1, 2, 3, len(body), len(body) + 1, rng.randrange(256)])
                    l = bytearray(l[:1] + bytes([rng.choice(b"0123456789")]) + (bytes(body) + bytes([(~sum(body)) & 255])).hex().upper().encode())
            except ValueError:
                pass
        else:
            l = bytearray(bytes(rng.choice(GARBAGE) for _ in range(rng.randrange(1, 30))))
        l = bytes(l)
        run.count(("line", l), nontrivial=True)
        for kind, f, rows, meta in (("hex", c14.hexline_observe, hexrows, hm), ("srec", c14.srecline_observe, srecrows, sm)):
            try:
                o = f(l)
            except BaseException as x:
                run.violation("line|%s|%s" % (kind, type(x).__name__), "%s line parser raised %r on %r" % (kind.upper(), x, l), {"format": kind + "line", "line": l.decode("latin1")})
                continue
            if kind == "hex":
                rows.append("(%s, %s)" % (c14.blist(l), "None" if o is None else "(Some (%d, %d, %d, %s))" % (o[0], o[1], o[2], c14.blist(o[3]))))
            else:
                rows.append("(%s, %s)" % (c14.blist(l), "None" if o is None else "(Some (%d, %s, %s))" % (o[0], zlit(o[1]), c14.blist(o[2]))))
            meta.append(l)
    hdr = "From Coq Require Import ZArith List.\nImport ListNotations.\nRequire Import Amoco.C14.Model.\nOpen Scope Z_scope.\n"
    texts = []
    for name, rows, typ, fn, meta in (("hexline", hexrows, "list Z * option (Z * Z * Z * list Z)", "check_hexline", hm),
                                      ("srecline", srecrows, "list Z * option (Z * Z * list Z)", "check_srecline", sm)):
        for i in range(0, len(rows), 400):
            texts.append(("%s_%03d" % (name, i // 400), hdr + "Definition cases : list (%s) := [\n%s\n].\nEval vm_compute in (bad_from %s 0 cases).\n" % (
                typ, ";\n".join(rows[i:i + 400]), fn), name, i, meta))
    res = common.coq_eval_many(run.work / "lines", [(n, t) for n, t, _, _, _ in texts])
    ok = 0
    for n, t, kind, base, meta in texts:
        rc, out = res[n]
        lists = common.parse_nat_list(out)
        if rc != 0 or len(lists) != 1:
            run.violation("model-eval|" + kind, "%s model evaluation failed" % kind, {"theorem_or_correspondence": "Amoco.C14.Model.check_%s (%s)" % (kind, n), "output": out[-600:]}, found_input=False)
            continue
        ok += t.count(";\n(") + 1
        for k in lists[0][:2]:
            run.violation(kind + "|model-impl-correspondence", "%s: the implementation accepts/rejects or decodes the line %r differently from the model" % (kind, meta[base + k]),
                          {"theorem_or_correspondence": "Amoco.C14.Model.check_" + kind, "format": kind, "line": meta[base + k].decode("latin1")})
    run.cov["line_cases_in_coq"] = ok
    run.cov["traces_validated_against_impl"] = run.cov.get("traces_validated_against_impl", 0) + ok


def check(run):
    quick = run.tier == "quick"
    isa.load_all()
    global MAGICS
    MAGICS = live_magics()
    run.cov["rule"] = ("random bytes; magic prefix + random bytes; truncations and 1-5 byte corruptions of the shipped samples; synthesised "
                       "ELF / PE / Mach-O / HEX / SREC files valid, truncated, or with 1-4 fields set to boundary values; S-record files whose S0 header "
                       "record carries any single byte / the mname-ver-rev layout with binary bytes / random binary / text in several encodings, "
                       "valid and with one later record damaged (expected outcome from an independent file validator); fat Mach-O files of 1-4 "
                       "slices (tiny and larger synthesised images, shipped samples) intact, with every non-empty subset of the arch offset / size "
                       "fields set to 0 and to boundary values, nfat_arch varied, every prefix; table descriptors rewritten together on well-formed "
                       "images below 1 KB: ELF (4 class / byte order combinations) section header table count {0,1,0xFFFF,random} x entry size "
                       "{0,1,true-1,true,true+1,0xFFFF} x offset {0, in the ELF header, true, second entry, last bytes, beyond the end} x the designated "
                       "entry's sh_size/sh_link/sh_info {unchanged, largest positive, all ones}, the same product for the program header table, samples "
                       "with both; PE NumberOfSections x SizeOfOptionalHeader x e_lfanew and samples of NumberOfRvaAndSizes / directory (RVA, size) / "
                       "SizeOfImage / SizeOfHeaders; Mach-O ncmds x sizeofcmds x cmdsize and samples of nsects / LC_SYMTAB offsets and counts; COFF "
                       "f_nscns x f_opthdr x f_nsyms and samples of per-section relocation / line number / raw data descriptors; corrupted HEX / SREC lines; "
                       "distinct by input bytes; every input counts as non-trivial when it passes at least one magic test")
    run.static_part()
    # regenerated obligation: magic prefixes are pairwise disjoint
    tabs = [clist([c14.blist(m) for m in MAGICS[k]]) for k in ("Elf", "PE", "MachO", "COFF", "HEX", "SREC")]
    text = ("From Coq Require Import ZArith List.\nImport ListNotations.\nRequire Import Amoco.C20.Model.\nOpen Scope Z_scope.\n"
            "Lemma live_magics_disjoint : pairwise_disjoint %s = true.\nProof. vm_compute. reflexivity. Qed.\n" % clist(tabs))
    res = common.coq_eval_many(run.work / "magic", [("magics", text)])
    rc, out = res["magics"]
    run.obligation("Amoco.C20 live_magics_disjoint", rc == 0, {"tables": {k: [m.hex() for m in v] for k, v in MAGICS.items()}})
    if rc != 0:
        run.violation("regenerated|magic-tables", "the magic prefixes of two formats are compatible: a file can pass both magic tests",
                      {"theorem_or_correspondence": "generated lemma live_magics_disjoint", "output": out[-600:], "tables": {k: [m.hex() for m in v] for k, v in MAGICS.items()}},
                      found_input=False)
    files = []
    for f in sorted(glob.glob(SAMPLES + "/*/*") + glob.glob(SAMPLES + "/*/*/*.mach-o") + glob.glob(SAMPLES + "/*/*/*/*.mach-o")):
        if os.path.isfile(f):
            b = open(f, "rb").read()
            if 0 < len(b) < 250000:
                files.append((os.path.basename(f), b))
    # intact samples are identified as what `file` says they are
    signal.signal(signal.SIGPROF, _alarm)
    for f, b in files:
        want = "Elf" if b[:4] == b"\x7fELF" else "PE" if b[:2] == b"MZ" else "MachO" if b[:4] in (b"\xcf\xfa\xed\xfe", b"\xce\xfa\xed\xfe") else \
               "HEX" if f.endswith(".hex") else None
        o, dt, jump = identify(b)
        run.count(("sample", f), nontrivial=True)
        if o[0] != "ok":
            run.violation("sample|%s" % f, "read_program failed on the intact sample %s: %r" % (f, o), {"file": f})
        elif want and o[1] != want:
            run.violation("cross-claim|%s-as-%s" % (want, o[1]), "the sample %s (%s) is identified as %s" % (f, want, o[1]), {"file": f})
    # minimised / recorded failures run first
    for cf in sorted(glob.glob(str(common.VERIF / "corpus" / "C20" / "*.json"))):
        obj = json.load(open(cf))
        rep = obj.get("replay", obj)
        if rep.get("input"):
            b = bytes.fromhex(rep["input"])
            o, dt, jump = identify(b)
            run.count(("corpus", cf), nontrivial=True)
            if o[0] == "exc":
                run.violation("leak|%s|%s" % (o[2], o[1]), "corpus %s: read_program raised %s" % (os.path.basename(cf), o[1]), rep)
            elif o[0] == "timeout" or dt > TIME_LIMIT:
                run.violation("time|%s" % hot_stage(b), "corpus %s: read_program used %.1f s of CPU time on a %d-byte input" % (os.path.basename(cf), dt, len(b)), rep)
    per = 420 if quick else 9000
    tasks = [(run.seed * 977 + i, per, files, i, 14, run.seed, quick) for i in range(14)]
    # the parent's heap (every ISA module is loaded) must not be traversed by the workers' garbage collector: after a
    # fork that copies every page and charges seconds of CPU time to whichever input triggers the collection
    import gc
    gc.collect()
    gc.freeze()
    with mp.get_context("fork").Pool(14) as pool:
        results = pool.map(worker, tasks, chunksize=1)
    slow = []
    for r in results:
        run.cov["evaluations"] += r["n"]
        run._distinct.update(("%d-%d" % (id(r), j)).encode() for j in range(r["n"]))
        for k, v in r["hist"].items():
            run.cov.setdefault("input_kinds", {})[k] = run.cov.setdefault("input_kinds", {}).get(k, 0) + v
        for k, v in r["outcomes"].items():
            run.cov.setdefault("identified_as", {})[k] = run.cov.setdefault("identified_as", {}).get(k, 0) + v
        run.cov["valid_files_identified"] = run.cov.get("valid_files_identified", 0) + r["valid"]
        if r["skipped"]:
            run.cov["inputs_skipped_after_timeouts"] = run.cov.get("inputs_skipped_after_timeouts", 0) + r["skipped"]
        for s in r["samples"]:
            run.sample(s, 3)
        for k, v in sorted(r["finds"].items()):
            if k.startswith("time|") and v["input"] is not None:
                slow.append((k, v))
                continue
            run.violation(k, v["what"], {"input": v["input"], "tag": v["tag"], "length": v["length"]}, found_input=v["input"] is not None)
    # CPU time measured inside a loaded 14-process pool is confirmed once more here, alone, before it is reported
    confirmed = set()
    for k, v in sorted(slow, key=lambda kv: kv[1]["length"]):
        if k in confirmed and not k.endswith("|?"):
            # one confirmed input per stage is reported; the others of the same stage are not measured again
            continue
        b = bytes.fromhex(v["input"])
        with mp.get_context("fork").Pool(1) as one:
            o, dt, k2 = one.apply(remeasure, (b,))
        run.cov["slow_inputs_remeasured"] = run.cov.get("slow_inputs_remeasured", 0) + 1
        if o[0] == "timeout" or dt > TIME_LIMIT:
            confirmed.add(k)
            run.violation(k2, v["what"] + " (confirmed alone: %.1f s)" % dt, {"input": v["input"], "tag": v["tag"], "length": v["length"]})
    line_part(run, quick)
    run.cov["limits"] = {"seconds": TIME_LIMIT, "rss_jump_mb": MEM_JUMP_MB, "address_space_gb": 4}
    run.cov["trusted_base"] += ["harness/c20.py outcome classification (exception class and innermost amoco frame), time and memory measurement "
                                "(wall clock, ru_maxrss growth of the worker)", "harness/elfgen.py, fmtgen.py (valid files of each format)"]
    run.assumptions += ["the theorem's hypothesis (no constructor raises outside its own error types) is tested, not proved: the constructors are "
                        "thousands of lines of Python outside the model", "HEX / SREC garbage lines use the alphabet 0-9A-Fa-f:SGZ (Python's int() also "
                        "accepts signs, spaces and underscores, which the line model does not describe)",
                        "HEX / SREC magic is tested after stripping leading whitespace, as the parsers do"]
    return run


def replay(path):
    obj = json.load(open(path))["replay"]
    isa.load_all()
    global MAGICS
    MAGICS = live_magics()
    signal.signal(signal.SIGPROF, _alarm)
    if obj.get("input") is not None:
        o = identify(bytes.fromhex(obj["input"]))
        print(o)
        return 0 if o[0][0] == "ok" and o[1] <= TIME_LIMIT else 1
    if obj.get("line") is not None:
        l = obj["line"].encode("latin1")
        for f in (c14.hexline_observe, c14.srecline_observe):
            try:
                print(f(l))
            except BaseException as x:
                print("raised", repr(x))
                return 1
        return 1
    print(obj)
    return 1
