# C09 — stores and loads through symbolic pointers stay correct under aliasing.
# Static: coq/Properties/C09.v (byte-level model of the ordered store map, its replay ("mods") and the zoned memory;
# replay = sequential execution for every pointer assignment under the stated guard; refutation witness outside it).
# Tie: load/store programs through the real mapper, instantiated on every pointer assignment of a small lattice and
# compared with a bytearray execution (search oracle) and with the model (ordered map structure, vm_compute).
# A second generator builds memory-to-memory copies (a loaded, still symbolic value stored back or elsewhere after intervening
# stores) and instantiates them on assignments that make accesses through different pointers equal / overlapping / disjoint.
import json
import random

import common
import isa
import c01
import exptree as X
from common import zlit, clist

LEVEL = "proof"
PTRS = ["p", "q", "r"]
DATA = ["d0", "d1", "d2", "d3"]
MEMSZ = 96
BASE = 0x2000


def gen_program(rng, nops):
    """ops: ('st', ptr, disp, nbytes, ('reg', d) | ('cst', v)) | ('ld', dreg, ptr, disp, nbytes)"""
    ops = []
    for _ in range(nops):
        p = rng.choice(PTRS)
        disp = rng.choice([0, 0, 1, 2, 4, -1, -4, rng.randrange(-8, 9)])
        n = rng.choice([1, 2, 4, 4, 8])
        if rng.random() < 0.55 or not ops:
            src = ("reg", rng.choice(DATA)) if rng.random() < 0.5 else ("cst", rng.getrandbits(8 * n))
            ops.append(("st", p, disp, n, src))
        else:
            ops.append(("ld", rng.choice(DATA), p, disp, n))
    return ops


def assignments(rng, count):
    """pointer assignments from a small lattice: equal, off by 1..7, adjacent, disjoint"""
    out = []
    for _ in range(count):
        a = BASE + 32 + rng.randrange(0, 8)
        rel = lambda: rng.choice([0, 0, 1, 2, 3, 4, 7, 8, -1, -2, -4, 16, 24, -16])
        out.append({"p": a, "q": a + rel(), "r": a + rel()})
    return out


def gen_copy_program(rng):
    """memory-to-memory copies: a value is loaded through one pointer, one or more stores are made (preferably through
    other pointers), the loaded - still symbolic - value is stored back at the place it came from or copied elsewhere,
    and further loads follow (some of which are stored in turn, so that they reach the final memory).
    No (pointer, displacement) is stored twice: see classify()."""
    disp_ = lambda: rng.choice([0, 0, 1, 2, 4, -1, -2, -4, rng.randrange(-8, 9)])
    size_ = lambda: rng.choice([1, 2, 4, 4, 8])
    used = set()
    ops = []

    def store(p, disp, n, src):
        for _ in range(8):
            if (p, disp) not in used:
                break
            disp = rng.randrange(-8, 9)
        if (p, disp) in used:
            return
        used.add((p, disp))
        ops.append(("st", p, disp, n, src))

    def some_src(n, regs):
        if regs and rng.random() < 0.4:
            return ("reg", rng.choice(regs))
        return ("cst", rng.getrandbits(8 * n))

    for _ in range(rng.randrange(0, 3)):                       # prefix
        n = size_()
        store(rng.choice(PTRS), disp_(), n, some_src(n, DATA))
    loaded = []                                                # (dreg, ptr, disp, nbytes)
    free = list(DATA)
    rng.shuffle(free)
    for _ in range(rng.choice([1, 1, 2])):                     # the saved values
        d = free.pop()
        q, disp, n = rng.choice(PTRS), disp_(), rng.choice([2, 4, 4, 8, 1])
        ops.append(("ld", d, q, disp, n))
        loaded.append((d, q, disp, n))
    q0 = loaded[0][1]
    others = [x for x in PTRS if x != q0]
    for _ in range(rng.randrange(1, 4)):                       # intervening stores
        n = size_()
        p = rng.choice(others) if rng.random() < 0.8 else q0
        store(p, disp_(), n, some_src(n, free))
    for d, q, disp, n in loaded:                               # store back / copy elsewhere
        mode = rng.random()
        if mode < 0.5:
            store(q, disp, n if rng.random() < 0.8 else size_(), ("reg", d))
        elif mode < 0.8:
            store(rng.choice(PTRS), disp_(), n if rng.random() < 0.7 else size_(), ("reg", d))
        else:
            store(q, max(-8, min(8, disp + rng.choice([-2, -1, 1, 2]))), n, ("reg", d))
        if rng.random() < 0.3:
            n2 = size_()
            store(rng.choice(PTRS), disp_(), n2, some_src(n2, free))
    for _ in range(rng.randrange(1, 3)):                       # reads after the copy, possibly copied in turn
        if not free:
            break
        d = free.pop()
        st = [o for o in ops if o[0] == "st"]
        if rng.random() < 0.7:
            o = rng.choice(st)
            p, disp = (o[1], o[2]) if rng.random() < 0.5 else (rng.choice(PTRS), disp_())
        else:
            p, disp = rng.choice(PTRS), disp_()
        n = size_()
        ops.append(("ld", d, p, disp, n))
        if rng.random() < 0.5:
            store(rng.choice(PTRS), disp_(), n, ("reg", d))
    return ops


def accesses(ops):
    return [(o[1], o[2], o[3]) if o[0] == "st" else (o[2], o[3], o[4]) for o in ops]


def directed_assignments(rng, ops, count):
    """pointer assignments chosen from the program: an access through one pointer and an access through another one are
    made equal, partially overlapping (every shift), adjacent or disjoint; the third pointer likewise or from the lattice"""
    acc = accesses(ops)
    rel = lambda: rng.choice([0, 0, 1, 2, 3, 4, 7, 8, -1, -2, -4, 16, 24, -16])
    out = []
    for _ in range(count):
        a = BASE + 32 + rng.randrange(0, 8)
        sigma = {"p": a + rel(), "q": a + rel(), "r": a + rel()}
        order = list(PTRS)
        rng.shuffle(order)
        sigma[order[0]] = a
        for k in (1, 2):
            y = order[k]
            mine = [x for x in acc if x[0] == y]
            theirs = [x for x in acc if x[0] in order[:k]]
            if not mine or not theirs or rng.random() < 0.15:
                continue
            (_, dy, ny), (x, dx, nx) = rng.choice(mine), rng.choice(theirs)
            mode = rng.random()
            if mode < 0.35:
                shift = 0                                      # same first byte
            elif mode < 0.8:
                shift = rng.randrange(-(ny - 1), nx)           # at least one common byte
            elif mode < 0.9:
                shift = rng.choice([-ny, nx])                  # adjacent
            else:
                shift = rng.choice([-ny - 8, nx + 8])          # disjoint
            v = sigma[x] + dx + shift - dy
            if -16 <= v - a <= 24:                             # every access stays inside the memory window
                sigma[y] = v
        out.append(sigma)
    return out


def overlap_between_bases(ops, sigma):
    acc = []
    for o in ops:
        p, disp, n = (o[1], o[2], o[3]) if o[0] == "st" else (o[2], o[3], o[4])
        acc.append((p, sigma[p] + disp, n))
    for i in range(len(acc)):
        for j in range(i + 1, len(acc)):
            if acc[i][0] != acc[j][0] and acc[i][1] < acc[j][1] + acc[j][2] and acc[j][1] < acc[i][1] + acc[i][2]:
                return True
    return False


def ref_exec(ops, sigma, regs0, mem0, endian):
    mem = bytearray(mem0)
    regs = dict(regs0)
    for o in ops:
        if o[0] == "st":
            _, p, disp, n, src = o
            v = regs[src[1]] & X.mask(8 * n) if src[0] == "reg" else src[1]
            bs = v.to_bytes(n, "little")[::endian]
            a = sigma[p] + disp - BASE
            mem[a:a + n] = bs
        else:
            _, d, p, disp, n = o
            a = sigma[p] + disp - BASE
            v = int.from_bytes(bytes(mem[a:a + n])[::endian], "little")
            regs[d] = (regs[d] & ~X.mask(8 * n)) | v     # sub-register write keeps the upper bits
    return regs, bytes(mem)


def run_program(cx, ops, endian, noaliasing, memtrace):
    """builds the symbolic map through the mapper API"""
    E = cx.E
    cx.conf.Cas.noaliasing, cx.conf.Cas.memtrace = noaliasing, memtrace
    R = {n: E.reg(n, 32) for n in PTRS}
    D = {n: E.reg(n, 64) for n in DATA}
    m = cx.mapper()
    for o in ops:
        if o[0] == "st":
            _, p, disp, n, src = o
            v = m(D[src[1]][0:8 * n]) if src[0] == "reg" else E.cst(src[1], 8 * n)
            m[E.mem(R[p], 8 * n, disp=disp, endian=endian)] = v
        else:
            _, d, p, disp, n = o
            m[D[d][0:8 * n]] = m(E.mem(R[p], 8 * n, disp=disp, endian=endian))
    return m, R, D


def instantiate(cx, m, R, D, sigma, regs0, mem0):
    E = cx.E
    s0 = cx.mapper()
    for n, r in R.items():
        s0[r] = E.cst(sigma[n], 32)
    for n, r in D.items():
        s0[r] = E.cst(regs0[n], 64)
    s0.mmap.write(BASE, bytes(mem0))
    fin = s0 >> m
    regs = {}
    for n, r in D.items():
        v = fin(r)
        regs[n] = v.v if v._is_cst else None
    parts = fin.mmap.read(BASE, MEMSZ)
    mem = []
    for p in parts:
        if isinstance(p, (bytes, bytearray)):
            mem += list(p)
        else:
            mem += [None] * (p.size // 8)
    return regs, mem


def ordered_keys(m, R):
    out = []
    names = {id(r): n for n, r in R.items()}
    for loc, v in m:
        if loc._is_ptr:
            out.append((str(loc.base), loc.disp, v.size // 8))
    return out


def classify(ops, sigma, endian, memtrace):
    """root-cause classes of the shapes known to break the ordered-map replay"""
    if not memtrace:
        return "memtrace-off"
    if endian == -1:
        return "big-endian-store-replayed-little-endian"
    # a second store at a (pointer, displacement) already stored to removes the first entry from the ordered map and
    # re-records it (widened to the earlier size) after the stores made in between: the class is a store through an
    # other pointer register between two stores at the same (pointer, displacement) that meets their bytes
    st = [o for o in ops if o[0] == "st"]
    for i in range(len(st)):
        for k in range(i + 1, len(st)):
            if (st[i][1], st[i][2]) != (st[k][1], st[k][2]):
                continue
            a, n = sigma[st[i][1]] + st[i][2], max(st[i][3], st[k][3])
            for j in range(i + 1, k):
                b = sigma[st[j][1]] + st[j][2]
                if st[j][1] != st[i][1] and a < b + st[j][3] and b < a + n:
                    return "same-address-stored-twice"
    return None


def restore_part(run, quick):
    """constant stores through one pointer with repeated and overlapping addresses (no-aliasing mode, little-endian): the
    ordered map's entries and the memory bytes vs the Gallina model coq/C09/Restore.v and vs last-write-wins"""
    cx = c01.Ctx()
    E = cx.E
    cx.conf.Cas.noaliasing, cx.conf.Cas.memtrace = True, True
    rng = random.Random(run.seed * 6007 + 9)
    p = E.reg("p", 32)
    rows = []
    for it in range(400 if quick else 8000):
        prog = []
        offs = [rng.randrange(0, 7) for _ in range(rng.randrange(1, 4))]
        m = cx.mapper()
        for _ in range(rng.randrange(1, 8)):
            o = rng.choice(offs)
            sz = rng.choice([1, 2, 4])
            val = [rng.getrandbits(8) for _ in range(sz)]
            prog.append((o, val))
            m[E.mem(p, 8 * sz, disp=o)] = E.cst(int.from_bytes(bytes(val), "little"), 8 * sz)
        run.count(("restore", repr(prog)), nontrivial=len({o for o, _ in prog}) < len(prog))
        try:
            ents = []
            for loc, v in m:
                if loc._is_ptr:
                    v = v.simplify()
                    if not v._is_cst:
                        raise ValueError("entry value %s" % v)
                    ents.append((loc.disp, list((v.v & ((1 << v.size) - 1)).to_bytes(v.size // 8, "little"))))
            obs = []
            for a in range(-1, 12):
                r = m[E.mem(p, 8, disp=a)].simplify()
                obs.append((a, (r.v & 0xFF) if r._is_cst else -1))
        except Exception as x:
            run.violation("restore|raised|" + type(x).__name__, "reading back a map of constant stores raised %r" % (x,), {"stores": prog})
            continue
        want = []
        for a in range(-1, 12):
            c = -1
            for o, val in prog:
                if o <= a < o + len(val):
                    c = val[a - o]
            want.append((a, c))
        if obs != want:
            k = next(i for i in range(len(obs)) if obs[i] != want[i])
            run.violation("restore|memory-byte", "after the stores %s the map reads %d at p%+d, last-write-wins gives %d" % (prog, obs[k][1], obs[k][0], want[k][1]),
                          {"stores": prog, "read": obs, "expected": want})
            continue
        st = lambda d: clist(["(%d, %s)" % (o, clist(map(str, val))) for o, val in d])
        rows.append("(%s, %s, %s)" % (st(prog), st(ents), clist(["(%d, (%d))" % ab for ab in obs])))
    shards = [rows[i:i + 300] for i in range(0, len(rows), 300)]
    texts = [("rs_%03d" % i, "From Coq Require Import ZArith List.\nImport ListNotations.\nRequire Import Amoco.C09.Restore.\nOpen Scope Z_scope.\n"
              "Definition cases : list rs_case := [\n%s\n].\nEval vm_compute in (bad_from check_rs 0 cases).\n" % ";\n".join(sh)) for i, sh in enumerate(shards)]
    res = common.coq_eval_many(run.work / "rs", texts)
    n_ok = 0
    for i, sh in enumerate(shards):
        rc, out = res["rs_%03d" % i]
        lists = common.parse_nat_list(out)
        if rc != 0 or len(lists) != 1:
            run.violation("model-eval|restore", "re-store model evaluation failed", {"theorem_or_correspondence": "Amoco.C09.Restore.check_rs shard %d" % i, "output": out[-800:]}, found_input=False)
            continue
        n_ok += len(sh)
        for k in lists[0][:3]:
            run.violation("model-impl-correspondence|restore", "ordered-map entries / memory after repeated stores differ from the model",
                          {"theorem_or_correspondence": "Amoco.C09.Restore.check_rs / C09_replay_with_repeated_stores", "case(program,entries,bytes)": sh[k][:900]}, found_input=True)
    run.cov["restore_programs_in_coq"] = n_ok
    return n_ok


def check(run):
    quick = run.tier == "quick"
    run.cov["rule"] = ("load/store program (2..9 ops over pointers p,q,r with displacements -8..8 and access sizes 1..8 bytes, register or "
                       "constant sources) x endianness x (noaliasing, memtrace) x pointer assignments from a lattice (equal, off by 1..7, "
                       "adjacent, disjoint); under noaliasing only assignments without overlap between different pointers; distinct by "
                       "(program, settings, assignment); non-trivial when >= 2 distinct pointers are used and a load follows a store; "
                       "plus memory-to-memory copy programs (load through one pointer, 1..3 intervening stores, the loaded value stored "
                       "back or elsewhere, later loads possibly stored in turn) on assignments making two accesses through different "
                       "pointers equal / overlapping by every shift / adjacent / disjoint")
    run.static_part()
    cx = c01.Ctx()
    rng = random.Random(run.seed * 313 + 9)
    nprog = 500 if quick else 12000
    nassign = 10 if quick else 30
    finds = {}
    rows = []

    def explore(ops, endian, noaliasing, memtrace, rng, assign, keep_row):
        try:
            m, R, D = run_program(cx, ops, endian, noaliasing, memtrace)
        except Exception as x:
            k = "build-raised|" + type(x).__name__
            finds.setdefault(k, {"ops": ops, "endian": endian, "noaliasing": noaliasing, "memtrace": memtrace, "error": repr(x)})
            return
        finally:
            cx.conf.Cas.noaliasing, cx.conf.Cas.memtrace = True, True
        ptrs_used = {o[1] if o[0] == "st" else o[2] for o in ops}
        nontrivial = len(ptrs_used) >= 2 and any(o[0] == "ld" and any(x[0] == "st" for x in ops[:i]) for i, o in enumerate(ops))
        if keep_row and not noaliasing and len(rows) < (400 if quick else 4000):
            sts = [o for o in ops if o[0] == "st"]
            rows.append((sts, ordered_keys(m, R)))
        for sigma in assign(ops):
            if noaliasing and overlap_between_bases(ops, sigma):
                continue
            regs0 = {n: rng.getrandbits(64) for n in DATA}
            mem0 = bytes(rng.getrandbits(8) for _ in range(MEMSZ))
            run.count((repr(ops), endian, noaliasing, memtrace, repr(sigma)), nontrivial)
            want_regs, want_mem = ref_exec(ops, sigma, regs0, mem0, endian)
            try:
                cx.conf.Cas.noaliasing, cx.conf.Cas.memtrace = noaliasing, memtrace
                got_regs, got_mem = instantiate(cx, m, R, D, sigma, regs0, mem0)
            except Exception as x:
                k = "instantiate-raised|" + type(x).__name__
                finds.setdefault(k, {"ops": ops, "endian": endian, "noaliasing": noaliasing, "memtrace": memtrace, "sigma": sigma, "error": repr(x)[:200]})
                continue
            finally:
                cx.conf.Cas.noaliasing, cx.conf.Cas.memtrace = True, True
            bad = [(n, hex(got_regs[n]), hex(want_regs[n])) for n in DATA if got_regs[n] is not None and got_regs[n] != want_regs[n]]
            if memtrace or not noaliasing:
                for a, (g, w) in enumerate(zip(got_mem, want_mem)):
                    if g is not None and g != w:
                        bad.append(("mem+%d" % a, hex(g), hex(w)))
                        break
            if bad:
                cause = classify(ops, sigma, endian, memtrace)
                key = "%s|%s" % ("noaliasing" if noaliasing else "aliasing", cause or ("loaded-register" if bad[0][0] in DATA else "final-memory"))
                if key not in finds:
                    finds[key] = {"ops": ops, "endian": endian, "noaliasing": noaliasing, "memtrace": memtrace, "sigma": sigma,
                                  "regs0": regs0, "mem0": mem0.hex(), "differences(name,got,want)": bad[:5]}
        run.sample({"ops": ops, "endian": endian, "noaliasing": noaliasing}, 3)

    for _ in range(nprog):
        ops = gen_program(rng, rng.randrange(2, 10))
        endian = rng.choice([1, 1, -1])
        noaliasing = rng.random() < 0.3
        memtrace = True if not noaliasing else rng.random() < 0.7
        explore(ops, endian, noaliasing, memtrace, rng, lambda ops: assignments(rng, nassign), True)
    # memory-to-memory copies with intervening stores, on pointer assignments derived from the program's accesses
    crng = random.Random(run.seed * 7919 + 909)
    ncopy = 0
    for _ in range(120 if quick else 2500):
        ops = gen_copy_program(crng)
        endian = crng.choice([1, 1, 1, -1])
        noaliasing = crng.random() < 0.2
        memtrace = True if not noaliasing else crng.random() < 0.7
        explore(ops, endian, noaliasing, memtrace, crng,
                lambda ops: directed_assignments(crng, ops, nassign) + assignments(crng, nassign // 3), False)
        ncopy += 1
    run.cov["copy_programs"] = ncopy
    for k, v in sorted(finds.items()):
        v = shrink(cx, v) if "sigma" in v and "regs0" in v else v
        run.violation(k, "load/store program through symbolic pointers differs from byte-level execution (%s)" % k, v)
    # model correspondence: the ordered map of stores (key order and sizes) as the model predicts it
    texts = []
    shards = [rows[i:i + 200] for i in range(0, len(rows), 200)]
    for i, sh in enumerate(shards):
        cases = []
        for sts, keys in sh:
            names = {"p": 0, "q": 1, "r": 2}
            prog = clist(["(%d, %s, %d)" % (names[o[1]], zlit(o[2]), o[3]) for o in sts])
            obs = clist(["(%d, %s, %d)" % (names[b], zlit(d), n) for b, d, n in keys])
            cases.append("(%s, %s)" % (prog, obs))
        texts.append(("om_%03d" % i, "From Coq Require Import ZArith List.\nImport ListNotations.\nRequire Import Amoco.C09.Model.\nOpen Scope Z_scope.\n"
                      "Definition cases : list om_case := [\n%s\n].\nEval vm_compute in (bad_from check_om 0 cases).\n" % ";\n".join(cases)))
    res = common.coq_eval_many(run.work / "om", texts)
    n_ok = 0
    for i, sh in enumerate(shards):
        rc, out = res["om_%03d" % i]
        lists = common.parse_nat_list(out)
        if rc != 0 or len(lists) != 1:
            run.violation("model-eval|om", "ordered-map model evaluation failed", {"theorem_or_correspondence": "Amoco.C09.Model.check_om shard %d" % i, "output": out[-800:]}, found_input=False)
            continue
        n_ok += len(sh)
        for k in lists[0][:3]:
            run.violation("model-impl-correspondence|ordered-map", "ordered store map differs from the model (key order / sizes)",
                          {"theorem_or_correspondence": "Amoco.C09.Model.check_om", "stores": sh[k][0], "observed_keys": sh[k][1]}, found_input=False)
    run.cov["ordered_maps_in_coq"] = n_ok
    n_ok += restore_part(run, quick)
    run.cov["traces_validated_against_impl"] = n_ok
    run.cov["trusted_base"] += ["harness/c09.py program driver, bytearray reference and pointer-assignment lattice"]
    run.assumptions += ["values are modelled as byte strings (expression-level content of stores is C01/C08's subject)"]
    return run


def fails(cx, v, ops):
    try:
        m, R, D = run_program(cx, ops, v["endian"], v["noaliasing"], v["memtrace"])
        regs0 = v["regs0"]
        mem0 = bytes.fromhex(v["mem0"])
        if v["noaliasing"] and overlap_between_bases(ops, v["sigma"]):
            return False
        want_regs, want_mem = ref_exec(ops, v["sigma"], regs0, mem0, v["endian"])
        cx.conf.Cas.noaliasing, cx.conf.Cas.memtrace = v["noaliasing"], v["memtrace"]
        got_regs, got_mem = instantiate(cx, m, R, D, v["sigma"], regs0, mem0)
        if any(got_regs[n] is not None and got_regs[n] != want_regs[n] for n in DATA):
            return True
        return (v["memtrace"] or not v["noaliasing"]) and any(g is not None and g != w for g, w in zip(got_mem, want_mem))
    except Exception:
        return False
    finally:
        cx.conf.Cas.noaliasing, cx.conf.Cas.memtrace = True, True


def shrink(cx, v):
    ops = list(v["ops"])
    changed = True
    while changed and len(ops) > 1:
        changed = False
        for i in range(len(ops)):
            cand = ops[:i] + ops[i + 1:]
            if fails(cx, v, cand):
                ops = cand
                changed = True
                break
    return dict(v, ops=ops)


def replay(path):
    obj = json.load(open(path))
    v = obj.get("replay", obj)
    v["ops"] = [tuple(tuple(x) if isinstance(x, list) else x for x in o) for o in v["ops"]]
    cx = c01.Ctx()
    f = fails(cx, v, v["ops"])
    print("differs" if f else "agrees")
    return 1 if f else 0
