# C19 — merging two maps over-approximates both.
# Static: coq/Properties/C19.v (join lists both or is unknown, for all map pairs / widening / threshold; untouched
# locations; evaluation membership).
# Tie: pairs of real mappers over registers, flags and memory locations: alternatives of merge(m1,m2)(loc) versus the
# model's (vm_compute); search oracle: membership of each map's value (structurally, and evaluated on a concrete
# state) among the merged alternatives.
import json
import random

import common
import isa
import c01
import c02
import exptree as X
from common import zlit, clist

LEVEL = "proof"
NREG = 5


_FP = {}


def canon(x, widening, cx=None):
    """identity of an alternative for the model rows: its values on three fixed concrete register states when they are all
    constants (one expression is often listed in differently simplified forms), its rendering otherwise"""
    if cx is not None:
        if "states" not in _FP:
            E = cx.E
            rr = random.Random(1234)
            sts = []
            for _ in range(3):
                st = cx.mapper()
                for i in range(NREG):
                    st[E.reg("g%d" % i, 32)] = E.cst(rr.getrandbits(32), 32)
                for nm in ("sp", "bp"):
                    st[E.reg(nm, 32)] = E.cst(rr.getrandbits(32), 32)
                sts.append(st)
            _FP["states"] = sts
        try:
            vals = [st(x) for st in _FP["states"]]
            if all(v._is_cst for v in vals):
                return "fp:" + ",".join("%x/%d" % (v.v & ((1 << v.size) - 1), v.size) for v in vals)
        except Exception:
            pass
    return str(x)


def alts_of(v):
    if v._is_top and not v._is_vec:
        return None          # unknown
    if v._is_vec:            # vec or vecw
        return list(v.l), bool(v._is_top)
    return [v], False


def gen_map(cx, rng, regs, flag, ptrs, with_cond):
    E = cx.E
    m = cx.mapper()
    B = X.Builder(False)
    B.regs = {r.ref: r for r in regs}
    desc = []
    for _ in range(rng.randrange(1, 5)):
        k = rng.random()
        if k < 0.6:
            dst = rng.choice(regs)
            pool = rng.choice([0, 1, 2])
            if pool == 0:
                v = E.cst(rng.choice([0, 1, 7, rng.getrandbits(8)]), 32)
            elif pool == 1:
                v = rng.choice(regs) + rng.choice([0, 1, 4])
            else:
                v = rng.choice(regs) ^ rng.choice(regs)
            m[dst] = m(v)
            desc.append(("reg", dst.ref, str(v)))
        elif k < 0.75:
            m[flag] = m(rng.choice(regs)[0:1])
            desc.append(("flag", flag.ref))
        else:
            p = rng.choice(ptrs)
            v = rng.choice([E.cst(rng.getrandbits(8), 32), rng.choice(regs)])
            d = rng.choice([0, 4])
            if rng.random() < 0.25:
                # a vector-valued pointer: the store goes to one of several addresses
                p = E.vec([ptrs[0], ptrs[1]])
                d = rng.choice([0, 4, -8])
            sz = 32
            if not p._is_vec and rng.random() < 0.4:
                # narrower stores at neighbouring displacements: overlapping stores through different pointer expressions,
                # and locations stored to more than once
                sz = rng.choice([8, 16])
                d = rng.choice([0, 1, 2, 4, 5])
                v = v[0:sz]
            m[E.mem(p, sz, disp=d)] = m(v)
            desc.append(("mem", str(p), d, str(v), sz))
    if with_cond:
        r = rng.choice(regs)
        k = E.cst(rng.choice([0, 1, 7]), 32)
        kind = rng.choice(["==", "==", "!=", "!=", "<", "flag"])
        c = {"==": lambda: r == k, "!=": lambda: r != k, "<": lambda: E.oper("<", r, E.cst(9, 32)),
             "flag": lambda: (flag == E.cst(rng.getrandbits(1), 1)) if rng.random() < 0.5 else (flag != E.cst(rng.getrandbits(1), 1))}[kind]()
        m.conds = [c]
        desc.append(("cond", str(c)))
    return m, desc


def sat_state(cx, rng, regs, ptrs, flag, conds):
    """a concrete state (mapper) in which every path condition holds, or None"""
    E = cx.E
    for _ in range(6):
        env = {r: rng.getrandbits(32) for r in regs + ptrs}
        fl = rng.getrandbits(1)
        for c in conds:
            try:
                if c._is_eqn and c.op.symbol == "==" and c.l._is_reg and c.r._is_cst:
                    if c.l.size == 1:
                        fl = c.r.v
                    else:
                        env[c.l] = c.r.v
                elif c._is_eqn and c.op.symbol == "!=" and c.l._is_reg and c.r._is_cst and c.l.size == 1:
                    fl = 1 - c.r.v
                elif c._is_eqn and c.op.symbol == "<" and c.l._is_reg:
                    env[c.l] = rng.randrange(0, 9)
            except Exception:
                pass
        s0 = cx.mapper()
        for r, v in env.items():
            s0[r] = E.cst(v, 32)
        s0[flag] = E.cst(fl, 1)
        try:
            if all(s0(c)._is_cst and s0(c).v == 1 for c in conds):
                return s0, dict({str(k): hex(x) for k, x in env.items()}, fl=fl)
        except Exception:
            return None
    return None


def special_part(run, quick):
    """(A) conditional values guarded by path conditions that repeat, negate or swap the operands of their test;
    (B) aliasing not assumed away: one map stores at an absolute address, the other through a register that, in the state,
    points at or next to it.  Oracle: on a concrete state (with concrete memory) that satisfies a map's conditions, the value
    every stored location has in that map - and in the other map, when its conditions hold too - is among the candidates the
    merged map gives there."""
    cx = c01.Ctx()
    E = cx.E
    from amoco.cas.mapper import merge
    from amoco.cas.expressions import is_reg_flags
    rng = random.Random(run.seed * 4447 + 19)
    x, y, a, b, r = (E.reg(n, 32) for n in ("x", "y", "a", "b", "r"))
    zf = is_reg_flags(E.reg("zf", 1))
    ABS = 0x1000

    def state(conds, alias):
        for _ in range(12):
            env = {x: rng.choice([0, 3, 7, rng.getrandbits(32)]), y: rng.choice([0, 3, 7, rng.getrandbits(32)]), a: rng.getrandbits(32), b: rng.getrandbits(32),
                   r: rng.getrandbits(32)}
            if alias:
                env[y] = ABS + rng.choice([0, 0, 1, 2, 4, -2, -4, 64])
            st = cx.mapper()
            for g, v in env.items():
                st[g] = E.cst(v & 0xFFFFFFFF, 32)
            st[zf] = E.cst(1, 1)
            st.mmap.write(ABS - 32, bytes(rng.getrandbits(8) for _ in range(160)))
            try:
                if all(st(c)._is_cst and st(c).v == 1 for c in conds):
                    return st, {str(g): hex(v & 0xFFFFFFFF) for g, v in env.items()}
            except Exception:
                return None
        return None

    for it in range(160 if quick else 3000):
        kind = "tst" if it % 2 == 0 else "alias"
        m1, m2 = cx.mapper(), cx.mapper()
        try:
            if kind == "tst":
                sym = rng.choice(["<", "<=", ">", ">=", "==", "!="])
                neg = {"<": ">=", "<=": ">", ">": "<=", ">=": "<", "==": "!=", "!=": "=="}
                test = E.oper(sym, x, y)
                m1[r] = E.tst(test, a, b) if rng.random() < 0.7 else E.tst(test, a + 1, E.cst(5, 32))
                form = rng.choice(["same", "negated", "swapped", "swapped-negated"])
                c2 = {"same": lambda: E.oper(sym, x, y), "negated": lambda: E.oper(neg[sym], x, y), "swapped": lambda: E.oper(sym, y, x),
                      "swapped-negated": lambda: E.oper(neg[sym], y, x)}[form]()
                m1.conds = [zf == E.cst(1, 1), c2] if rng.random() < 0.8 else [c2]
                m2[r] = E.cst(7, 32)
                if rng.random() < 0.3:
                    m2.conds = [E.oper(rng.choice(["<", ">="]), y, x)]
                desc = {"kind": kind, "test": str(test), "conds": [str(c) for c in m1.conds], "conds2": [str(c) for c in m2.conds]}
                keys = [r]
                cx.conf.Cas.noaliasing = True
            else:
                cx.conf.Cas.noaliasing = False
                d1, d2 = rng.choice([0, 0, 4]), rng.choice([0, 0, 4, -4])
                sz = rng.choice([32, 32, 16, 8])
                first_abs = rng.random() < 0.5
                mA, mS = (m1, m2) if first_abs else (m2, m1)
                mA[E.mem(E.cst(ABS + d1, 32), 32)] = a
                mS[E.mem(y, sz, disp=d2)] = b[0:sz]
                # the same stores for the byte-level reference: (map, address given the state, bytes given the state)
                progs = {id(mA): [(lambda ev: ABS + d1, lambda ev: ev["a"].to_bytes(4, "little"))],
                         id(mS): [(lambda ev: (ev["y"] + d2) & 0xFFFFFFFF, lambda ev: (ev["b"] & ((1 << sz) - 1)).to_bytes(sz // 8, "little"))]}
                if rng.random() < 0.3:
                    mS[E.mem(E.cst(ABS + 8, 32), 32)] = E.cst(0x11223344, 32)
                    progs[id(mS)].append((lambda ev: ABS + 8, lambda ev: (0x11223344).to_bytes(4, "little")))
                desc = {"kind": kind, "absolute_store": "M32(%#x)" % (ABS + d1), "pointer_store": "M%d(y%+d)" % (sz, d2), "first_map_is_absolute": first_abs}
                keys = [E.mem(E.cst(ABS + d1 + k, 32), 8) for k in range(4)] + [E.mem(y, 8, disp=d2 + k) for k in range(sz // 8)]
            wd = rng.random() < 0.2 and kind == "tst"
            mm = merge(m1, m2, widening=wd)
        except Exception as e:
            run.hist("special_construction_raised", type(e).__name__)
            cx.conf.Cas.noaliasing = True
            continue
        run.count(("special", json.dumps(desc, sort_keys=True), it), nontrivial=True)
        run.hist("special_pairs", kind)
        try:
            for which, mo, other in (("m1", m1, m2), ("m2", m2, m1)):
                st = state(mo.conds, kind == "alias")
                if st is None:
                    continue
                sx, shown = st
                for key in keys:
                    try:
                        rr = mm[key]
                        ra = alts_of(rr)
                        if ra is None or ra[1]:
                            continue
                        cands = [sx(z) for z in ra[0]]
                        if not all(z._is_cst for z in cands):
                            continue
                        vals = [("this", sx(mo[key]))]
                        if all(sx(c)._is_cst and sx(c).v == 1 for c in other.conds):
                            vals.append(("other", sx(other[key])))
                    except Exception:
                        continue
                    if kind == "alias":
                        # byte-level reference instead of the maps' own look-ups: the map's stores replayed on the state's memory
                        ev = {k_: int(v_, 16) for k_, v_ in shown.items()}
                        try:
                            addr = sx(key.a.base + key.a.disp) if not key.a.base._is_cst else E.cst(key.a.base.v + key.a.disp, 32)
                            addr = addr.v & 0xFFFFFFFF
                        except Exception:
                            continue
                        vals = []
                        for whose, mp in (("this", mo), ("other", other)):
                            if whose == "other" and not all(sx(c)._is_cst and sx(c).v == 1 for c in other.conds):
                                continue
                            cell = None
                            for af, vf in progs[id(mp)]:
                                a0, bs = af(ev), vf(ev)
                                if a0 <= addr < a0 + len(bs):
                                    cell = bs[addr - a0]
                            if cell is not None:
                                vals.append((whose, E.cst(cell, 8)))
                    for whose, c in vals:
                        if c._is_cst and c.v not in [z.v for z in cands]:
                            run.violation("special|%s|value-not-a-candidate" % kind,
                                          "merge (%s): on a state satisfying the conditions of %s, %s holds %#x in %s map but the merged map offers %s" % (
                                              kind, which, key, c.v, "that" if whose == "this" else "the other", [hex(z.v) for z in cands]),
                                          dict(desc, location=str(key), merged=str(rr), state=shown, value=hex(c.v), candidates=[hex(z.v) for z in cands]))
                            raise StopIteration
        except StopIteration:
            pass
        finally:
            cx.conf.Cas.noaliasing = True


def memmerge_part(run, quick):
    """overlapping constant stores through one pointer in both maps: per-byte alternatives of the merged map vs the
    Gallina model coq/C19/MemMerge.v (merge_mem) and vs the byte-level reference"""
    cx = c01.Ctx()
    E = cx.E
    from amoco.cas.mapper import merge
    rng = random.Random(run.seed * 7927 + 19)
    p = E.reg("p", 32)
    rows = []
    for it in range(300 if quick else 6000):
        maps, descs = [], []
        for _ in range(2):
            m = cx.mapper()
            d = []
            for _k in range(rng.randrange(0, 5)):
                sz = rng.choice([1, 1, 2, 4])
                off = rng.randrange(-2, 8)
                val = [rng.getrandbits(8) for _ in range(sz)]
                m[E.mem(p, 8 * sz, disp=off)] = E.cst(int.from_bytes(bytes(val), "little"), 8 * sz)
                d.append((off, val))
            maps.append(m)
            descs.append(d)
        try:
            mm = merge(maps[0], maps[1], widening=False)
        except Exception as x:
            run.violation("merge-raised|memory|" + type(x).__name__, "merge raised %r on two maps of constant stores" % (x,), {"m1": descs[0], "m2": descs[1]})
            continue
        obs = []
        ref_bad = None
        for a in range(-4, 13):
            try:
                r = mm[E.mem(p, 8, disp=a)].simplify()
            except Exception as x:
                ref_bad = ("lookup raised %r" % (x,), a)
                break
            alts = list(r.l) if r._is_vec else [r]
            if r._is_top and not r._is_vec:
                obs = None
                break
            enc = []
            for x in alts:
                x = x.simplify()
                enc.append(x.v & 0xFF if x._is_cst else -1)
            obs.append((a, enc))
            # byte-level reference: last store covering the address in each map
            want = set()
            for d in descs:
                c = -1
                for off, val in d:
                    if off <= a < off + len(val):
                        c = val[a - off]
                want.add(c)
            if not any(off <= a < off + len(val) for d in descs for off, val in d):
                want = {-1}
            if set(enc) != want and ref_bad is None:
                ref_bad = ("byte p%+d of the merged map lists %s, the two maps hold %s there" % (a, sorted(set(enc)), sorted(want)), a)
        run.count(("memmerge", repr(descs)), nontrivial=sum(len(d) for d in descs) >= 2)
        if ref_bad:
            run.violation("memory-merge|byte-alternatives", "merge of overlapping stores: " + ref_bad[0], {"m1": descs[0], "m2": descs[1], "address": ref_bad[1]})
            continue
        if obs is not None:
            st = lambda d: clist(["(%d, %s)" % (off, clist(map(str, val))) for off, val in d])
            rows.append("(%s, %s, %s)" % (st(descs[0]), st(descs[1]), clist(["(%d, %s)" % (a, clist(["(%d)" % v for v in enc])) for a, enc in obs])))
    shards = [rows[i:i + 300] for i in range(0, len(rows), 300)]
    texts = [("mm_%03d" % i, "From Coq Require Import ZArith List.\nImport ListNotations.\nRequire Import Amoco.C19.MemMerge.\nOpen Scope Z_scope.\n"
              "Definition cases : list mm_case := [\n%s\n].\nEval vm_compute in (bad_from check_mm 0 cases).\n" % ";\n".join(sh)) for i, sh in enumerate(shards)]
    res = common.coq_eval_many(run.work / "mm", texts)
    n_ok = 0
    for i, sh in enumerate(shards):
        rc, out = res["mm_%03d" % i]
        lists = common.parse_nat_list(out)
        if rc != 0 or len(lists) != 1:
            run.violation("model-eval|memory-merge", "memory-merge model evaluation failed", {"theorem_or_correspondence": "Amoco.C19.MemMerge.check_mm shard %d" % i, "output": out[-800:]}, found_input=False)
            continue
        n_ok += len(sh)
        for k in lists[0][:3]:
            run.violation("model-impl-correspondence|memory-merge", "merged memory differs from the model merge_mem",
                          {"theorem_or_correspondence": "Amoco.C19.MemMerge.check_mm / C19_merge_overlapping_stores", "case(m1,m2,observed)": sh[k][:900]}, found_input=True)
    run.cov["memory_merges_in_coq"] = n_ok
    return n_ok


def check(run):
    quick = run.tier == "quick"
    run.cov["rule"] = ("pair of maps (1..4 writes each over 5 registers, one flag register and 2 pointers x 2 displacements; constants, "
                       "register+constant, register^register values; optional equality path condition) x widening on/off x complexity "
                       "threshold off/small x concrete state; distinct by case; non-trivial when the maps disagree on >= 1 location")
    run.static_part()
    cx = c01.Ctx()
    E = cx.E
    from amoco.cas.mapper import merge
    from amoco.cas.expressions import is_reg_flags
    rng = random.Random(run.seed * 191 + 19)
    regs = [E.reg("g%d" % i, 32) for i in range(NREG)]
    flag = is_reg_flags(E.reg("fl", 1))
    ptrs = [E.reg("sp", 32), E.reg("bp", 32)]
    rows = []
    rows_meta = []
    finds = {}
    for it in range(1200 if quick else 25000):
        widening = rng.random() < 0.3
        thr = 0 if rng.random() < 0.7 else rng.choice([3, 8, 30])
        cx.conf.Cas.complexity = thr
        try:
            m1, d1 = gen_map(cx, rng, regs, flag, ptrs, rng.random() < 0.25)
            m2, d2 = gen_map(cx, rng, regs, flag, ptrs, rng.random() < 0.25)
        except Exception as x:
            # building the operand maps is not the subject here (a second store through a vector-valued pointer can raise)
            run.hist("map_construction_raised", type(x).__name__)
            cx.conf.Cas.complexity = 0
            continue
        try:
            mm = merge(m1, m2, widening=widening)
        except Exception as x:
            finds.setdefault("merge-raised|" + type(x).__name__, {"error": repr(x)[:200], "m1": locals().get("d1"), "m2": locals().get("d2"), "widening": widening})
            continue
        finally:
            cx.conf.Cas.complexity = 0
        # the maps as merge sees them (after assume)
        a1, a2 = m1.assume(m1.conds), m2.assume(m2.conds)
        locs = []
        sizes = {}
        for mp in (a1, a2):
            for loc, v in mp:
                if not any(str(loc) == str(l) for l in locs):
                    locs.append(loc)
                sizes.setdefault(str(loc), set()).add(v.size)
        env = {r: rng.getrandbits(32) for r in regs + ptrs}
        s0 = cx.mapper()
        for r, v in env.items():
            s0[r] = E.cst(v, 32)
        s0[flag] = E.cst(rng.getrandbits(1), 1)
        disagree = False
        case_rows = []
        keys = []
        for loc in locs:
            if loc._is_ptr and loc.base._is_vec:
                # component locations of a store through a vector-valued pointer
                for l in loc.base.l:
                    keys.append((loc, E.mem(l, 32, loc.seg, loc.disp)))
            elif loc._is_ptr:
                # read back at the width(s) stored there
                for sz in sorted(sizes[str(loc)]):
                    keys.append((loc, E.mem(loc, sz)))
            else:
                keys.append((loc, loc))
        seen_keys = set()
        for loc, key in keys:
            if str(key) in seen_keys:
                continue
            seen_keys.add(str(key))
            try:
                r = mm[key]
                v1, v2 = a1[key].simplify(), a2[key].simplify()
            except Exception as x:
                finds.setdefault("lookup-raised|" + type(x).__name__, {"error": repr(x)[:200], "m1": d1, "m2": d2})
                continue
            if str(v1) != str(v2):
                disagree = True
            isflag = loc._is_reg and bool(loc.etype & E.regtype.FLAGS)
            ra = alts_of(r)
            piecewise = bool(r._is_cmp and any(p._is_vec or p._is_top for p in r.parts.values()))
            if piecewise and not isflag:
                # overlapping stores of different widths: the merged value lists its alternatives piece by piece; every
                # piece must cover the corresponding bits of each map's value on a concrete state
                for which, v in (("m1", v1), ("m2", v2)):
                    try:
                        c = s0(v)
                        if not c._is_cst:
                            continue
                        for (lo, hi), part in r.parts.items():
                            pa = alts_of(part)
                            if pa is None or pa[1]:
                                continue
                            cands = [s0(x) for x in pa[0]]
                            if all(x._is_cst for x in cands) and ((c.v >> lo) & ((1 << (hi - lo)) - 1)) not in [x.v for x in cands]:
                                finds.setdefault("evaluated-value-not-a-candidate|" + which,
                                                 {"m1": d1, "m2": d2, "loc": str(loc), "merged": str(r), "value": str(v), "piece": [lo, hi],
                                                  "state": {str(k): hex(x) for k, x in env.items()}})
                    except Exception:
                        pass
                continue
            if isflag:
                if ra is not None:
                    finds.setdefault("flag-not-top", {"m1": d1, "m2": d2, "loc": str(loc), "merged": str(r)})
                continue
            if ra is None:
                continue
            rl, unknown = ra
            strs = {str(x) for x in rl}
            for x in rl:
                # an alternative may be listed in an unsimplified but identical form, e.g. (a^b)[16:32] for a[16:32]^b[16:32]
                try:
                    strs.add(str(x.simplify()))
                    strs.add(str(x.simplify(bitslice=True)))
                except Exception:
                    pass
            for which, v in (("m1", v1), ("m2", v2)):
                va = alts_of(v)
                if va is None:
                    continue
                missing = [str(x) for x in va[0] if str(x) not in strs and str(x.simplify()) not in strs and str(x.simplify(bitslice=True)) not in strs]
                if missing and not unknown:
                    finds.setdefault("alternative-missing|" + which, {"m1": d1, "m2": d2, "loc": str(loc), "merged": str(r), "value": str(v),
                                                                    "widening": widening, "threshold": thr})
                # evaluation membership on a concrete state
                try:
                    c = s0(v)
                    cands = [s0(x) for x in rl]
                    if c._is_cst and all(x._is_cst for x in cands) and not unknown and c.v not in [x.v for x in cands]:
                        finds.setdefault("evaluated-value-not-a-candidate|" + which,
                                         {"m1": d1, "m2": d2, "loc": str(loc), "merged": str(r), "value": str(v), "state": {str(k): hex(x) for k, x in env.items()}})
                except Exception:
                    pass
            # model row: alternatives as atom ids (by rendering)
            narrow = any(d[0] == "mem" and d[4] != 32 for d in d1 + d2)
            if not narrow and not any(d[0] == "mem" and "[" in d[1] for d in d1 + d2):        # joins under vector-pointer or overlapping narrow stores: membership oracles only
                case_rows.append((str(loc), v1, v2, r, widening, thr))
        # ---- the maps as written (before assume), each on a state that satisfies its own path conditions: the value
        # each location has there is among the merged map's candidates on that state
        for which, mo, dd in (("m1", m1, d1), ("m2", m2, d2)):
            st = sat_state(cx, rng, regs, ptrs, flag, mo.conds)
            if st is None:
                continue
            sx, shown = st
            okeys = []
            for loc, v in mo:
                if loc._is_ptr and loc.base._is_vec:
                    continue
                okeys.append(E.mem(loc, v.size) if loc._is_ptr else loc)
            for key in okeys:
                if key._is_reg and bool(key.etype & E.regtype.FLAGS):
                    continue
                try:
                    c = sx(mo[key])
                    r = mm[key]
                    ra = alts_of(r)
                    if ra is None or ra[1] or not c._is_cst:
                        continue
                    cands = [sx(x) for x in ra[0]]
                except Exception:
                    continue
                if all(x._is_cst for x in cands) and c.v not in [x.v for x in cands]:
                    finds.setdefault("original-map-value-not-a-candidate|" + which,
                                     {"m1": d1, "m2": d2, "loc": str(key), "merged": str(r), "value_in_map": str(mo[key]), "evaluates_to": hex(c.v),
                                      "candidates": [hex(x.v) for x in cands], "state": shown, "widening": widening, "threshold": thr})
        run.count((repr(d1), repr(d2), widening, thr), disagree)
        run.sample({"m1": d1, "m2": d2, "widening": widening, "threshold": thr}, 3)
        if len(rows) < (900 if quick else 9000):
            for loc, v1, v2, r, wd, th in case_rows:
                if th != 0:
                    continue        # the complexity measure of atoms is not modelled: threshold cases are checked by the oracle only
                ids = {}
                fps = {}
                def val(v, observed=False):
                    a = alts_of(v)
                    if a is None:
                        return "Top"
                    out = []
                    for x in a[0]:
                        sx = str(x)
                        if sx not in ids:
                            fp = canon(x, wd, cx)
                            if observed and fp.startswith("fp:") and fp in fps:
                                # an operand alternative listed by merge in another (equal-valued) simplified form
                                ids[sx] = fps[fp]
                            else:
                                ids[sx] = len(set(ids.values()))
                                fps.setdefault(fp, ids[sx])
                        out.append(str(ids[sx]))
                    l = clist(out)
                    if v._is_vec:
                        return ("VecW %s" if a[1] else "Vec %s") % l
                    return "Atom %s" % l.strip("[]")
                rows.append("(%s, %s, %s, %s)" % (val(v1), val(v2), "true" if wd else "false", val(r, True)))
                rows_meta.append({"m1": d1, "m2": d2, "loc": loc, "v1": str(v1), "v2": str(v2), "merged": str(r), "widening": wd})
    for k, v in sorted(finds.items()):
        run.violation(k, "merge of two maps: %s" % k, v)
    shards = [rows[i:i + 500] for i in range(0, len(rows), 500)]
    texts = [("mg_%03d" % i, "From Coq Require Import ZArith List.\nImport ListNotations.\nRequire Import Amoco.C19.Model Amoco.C19.Corr.\nOpen Scope Z_scope.\n"
              "Definition cases : list mg_case := [\n%s\n].\nEval vm_compute in (bad_from check_mg 0 cases).\n" % ";\n".join(sh)) for i, sh in enumerate(shards)]
    res = common.coq_eval_many(run.work / "mg", texts)
    n_ok = 0
    for i, sh in enumerate(shards):
        rc, out = res["mg_%03d" % i]
        lists = common.parse_nat_list(out)
        if rc != 0 or len(lists) != 1:
            run.violation("model-eval|merge", "merge model evaluation failed", {"theorem_or_correspondence": "Amoco.C19.Corr.check_mg shard %d" % i, "output": out[-800:]}, found_input=False)
            continue
        n_ok += len(sh)
        for k in lists[0][:3]:
            run.violation("model-impl-correspondence|join", "vec([v1,v2]).simplify differs from the model's join",
                          dict(rows_meta[i * 500 + k], **{"theorem_or_correspondence": "Amoco.C19.Corr.check_mg", "case(v1,v2,widening,observed)": sh[k]}), found_input=False)
    run.cov["joins_in_coq"] = n_ok
    n_ok += memmerge_part(run, quick)
    special_part(run, quick)
    run.cov["traces_validated_against_impl"] = n_ok
    run.cov["trusted_base"] += ["harness/c19.py map generator, alternative extraction (by rendering, as amoco compares expressions)"]
    run.assumptions += ["path conditions are applied by the implementation (mapper.assume) before the comparison; the model starts after that step",
                        "the complexity measure is not modelled: threshold cases are checked by the membership oracle only"]
    return run


def replay(path):
    print(json.dumps(json.load(open(path))["replay"], indent=1)[:3000])
    return 1
