# C19 — merging two maps over-approximates both.
# Static: coq/Properties/C19.v (join lists both or is unknown, for all map pairs / widening / threshold; untouched
# locations; evaluation membership).
# Tie: pairs of real mappers over registers, flags and memory locations: alternatives of merge(m1,m2)(loc) versus the
# model's (vm_compute); search oracle: membership of each map's value (structurally, and evaluated on a concrete
# state) among the merged alternatives.
import json
import random

import common
import isa
import c01
import c02
import exptree as X
from common import zlit, clist

LEVEL = "proof"
NREG = 5


def alts_of(v):
    if v._is_top and not v._is_vec:
        return None          # unknown
    if v._is_vec:            # vec or vecw
        return list(v.l), bool(v._is_top)
    return [v], False


def gen_map(cx, rng, regs, flag, ptrs, with_cond):
    E = cx.E
    m = cx.mapper()
    B = X.Builder(False)
    B.regs = {r.ref: r for r in regs}
    desc = []
    for _ in range(rng.randrange(1, 5)):
        k = rng.random()
        if k < 0.6:
            dst = rng.choice(regs)
            pool = rng.choice([0, 1, 2])
            if pool == 0:
                v = E.cst(rng.choice([0, 1, 7, rng.getrandbits(8)]), 32)
            elif pool == 1:
                v = rng.choice(regs) + rng.choice([0, 1, 4])
            else:
                v = rng.choice(regs) ^ rng.choice(regs)
            m[dst] = m(v)
            desc.append(("reg", dst.ref, str(v)))
        elif k < 0.75:
            m[flag] = m(rng.choice(regs)[0:1])
            desc.append(("flag", flag.ref))
        else:
            p = rng.choice(ptrs)
            v = rng.choice([E.cst(rng.getrandbits(8), 32), rng.choice(regs)])
            d = rng.choice([0, 4])
            if rng.random() < 0.25:
                # a vector-valued pointer: the store goes to one of several addresses
                p = E.vec([ptrs[0], ptrs[1]])
                d = rng.choice([0, 4, -8])
            m[E.mem(p, 32, disp=d)] = m(v)
            desc.append(("mem", str(p), d, str(v)))
    if with_cond:
        c = (rng.choice(regs) == E.cst(rng.choice([0, 1, 7]), 32))
        m.conds = [c]
        desc.append(("cond", str(c)))
    return m, desc


def check(run):
    quick = run.tier == "quick"
    run.cov["rule"] = ("pair of maps (1..4 writes each over 5 registers, one flag register and 2 pointers x 2 displacements; constants, "
                       "register+constant, register^register values; optional equality path condition) x widening on/off x complexity "
                       "threshold off/small x concrete state; distinct by case; non-trivial when the maps disagree on >= 1 location")
    run.static_part()
    cx = c01.Ctx()
    E = cx.E
    from amoco.cas.mapper import merge
    from amoco.cas.expressions import is_reg_flags
    rng = random.Random(run.seed * 191 + 19)
    regs = [E.reg("g%d" % i, 32) for i in range(NREG)]
    flag = is_reg_flags(E.reg("fl", 1))
    ptrs = [E.reg("sp", 32), E.reg("bp", 32)]
    rows = []
    finds = {}
    for it in range(1200 if quick else 25000):
        widening = rng.random() < 0.3
        thr = 0 if rng.random() < 0.7 else rng.choice([3, 8, 30])
        cx.conf.Cas.complexity = thr
        try:
            m1, d1 = gen_map(cx, rng, regs, flag, ptrs, rng.random() < 0.25)
            m2, d2 = gen_map(cx, rng, regs, flag, ptrs, rng.random() < 0.25)
        except Exception as x:
            # building the operand maps is not the subject here (a second store through a vector-valued pointer can raise)
            run.hist("map_construction_raised", type(x).__name__)
            cx.conf.Cas.complexity = 0
            continue
        try:
            mm = merge(m1, m2, widening=widening)
        except Exception as x:
            finds.setdefault("merge-raised|" + type(x).__name__, {"error": repr(x)[:200], "m1": locals().get("d1"), "m2": locals().get("d2"), "widening": widening})
            continue
        finally:
            cx.conf.Cas.complexity = 0
        # the maps as merge sees them (after assume)
        a1, a2 = m1.assume(m1.conds), m2.assume(m2.conds)
        locs = []
        for mp in (a1, a2):
            for loc, v in mp:
                if not any(str(loc) == str(l) for l in locs):
                    locs.append(loc)
        env = {r: rng.getrandbits(32) for r in regs + ptrs}
        s0 = cx.mapper()
        for r, v in env.items():
            s0[r] = E.cst(v, 32)
        s0[flag] = E.cst(rng.getrandbits(1), 1)
        disagree = False
        case_rows = []
        keys = []
        for loc in locs:
            if loc._is_ptr and loc.base._is_vec:
                # component locations of a store through a vector-valued pointer
                for l in loc.base.l:
                    keys.append((loc, E.mem(l, 32, loc.seg, loc.disp)))
            else:
                keys.append((loc, E.mem(loc, 32) if loc._is_ptr else loc))
        seen_keys = set()
        for loc, key in keys:
            if str(key) in seen_keys:
                continue
            seen_keys.add(str(key))
            try:
                r = mm[key]
                v1, v2 = a1[key].simplify(), a2[key].simplify()
            except Exception as x:
                finds.setdefault("lookup-raised|" + type(x).__name__, {"error": repr(x)[:200], "m1": d1, "m2": d2})
                continue
            if str(v1) != str(v2):
                disagree = True
            isflag = loc._is_reg and bool(loc.etype & E.regtype.FLAGS)
            ra = alts_of(r)
            if isflag:
                if ra is not None:
                    finds.setdefault("flag-not-top", {"m1": d1, "m2": d2, "loc": str(loc), "merged": str(r)})
                continue
            if ra is None:
                continue
            rl, unknown = ra
            strs = {str(x) for x in rl}
            for which, v in (("m1", v1), ("m2", v2)):
                va = alts_of(v)
                if va is None:
                    continue
                missing = [str(x) for x in va[0] if str(x) not in strs]
                if missing and not unknown:
                    finds.setdefault("alternative-missing|" + which, {"m1": d1, "m2": d2, "loc": str(loc), "merged": str(r), "value": str(v),
                                                                    "widening": widening, "threshold": thr})
                # evaluation membership on a concrete state
                try:
                    c = s0(v)
                    cands = [s0(x) for x in rl]
                    if c._is_cst and all(x._is_cst for x in cands) and not unknown and c.v not in [x.v for x in cands]:
                        finds.setdefault("evaluated-value-not-a-candidate|" + which,
                                         {"m1": d1, "m2": d2, "loc": str(loc), "merged": str(r), "value": str(v), "state": {str(k): hex(x) for k, x in env.items()}})
                except Exception:
                    pass
            # model row: alternatives as atom ids (by rendering)
            if not any(d[0] == "mem" and "[" in d[1] for d in d1 + d2):        # joins under vector-pointer stores: membership oracle only
                case_rows.append((str(loc), v1, v2, r, widening, thr))
        run.count((repr(d1), repr(d2), widening, thr), disagree)
        run.sample({"m1": d1, "m2": d2, "widening": widening, "threshold": thr}, 3)
        if len(rows) < (900 if quick else 9000):
            for loc, v1, v2, r, wd, th in case_rows:
                if th != 0:
                    continue        # the complexity measure of atoms is not modelled: threshold cases are checked by the oracle only
                ids = {}
                def val(v):
                    a = alts_of(v)
                    if a is None:
                        return "Top"
                    l = clist([str(ids.setdefault(str(x), len(ids))) for x in a[0]])
                    if v._is_vec:
                        return ("VecW %s" if a[1] else "Vec %s") % l
                    return "Atom %s" % l.strip("[]")
                rows.append("(%s, %s, %s, %s)" % (val(v1), val(v2), "true" if wd else "false", val(r)))
    for k, v in sorted(finds.items()):
        run.violation(k, "merge of two maps: %s" % k, v)
    shards = [rows[i:i + 500] for i in range(0, len(rows), 500)]
    texts = [("mg_%03d" % i, "From Coq Require Import ZArith List.\nImport ListNotations.\nRequire Import Amoco.C19.Model Amoco.C19.Corr.\nOpen Scope Z_scope.\n"
              "Definition cases : list mg_case := [\n%s\n].\nEval vm_compute in (bad_from check_mg 0 cases).\n" % ";\n".join(sh)) for i, sh in enumerate(shards)]
    res = common.coq_eval_many(run.work / "mg", texts)
    n_ok = 0
    for i, sh in enumerate(shards):
        rc, out = res["mg_%03d" % i]
        lists = common.parse_nat_list(out)
        if rc != 0 or len(lists) != 1:
            run.violation("model-eval|merge", "merge model evaluation failed", {"theorem_or_correspondence": "Amoco.C19.Corr.check_mg shard %d" % i, "output": out[-800:]}, found_input=False)
            continue
        n_ok += len(sh)
        for k in lists[0][:3]:
            run.violation("model-impl-correspondence|join", "vec([v1,v2]).simplify differs from the model's join",
                          {"theorem_or_correspondence": "Amoco.C19.Corr.check_mg", "case(v1,v2,widening,observed)": sh[k]}, found_input=False)
    run.cov["joins_in_coq"] = n_ok
    run.cov["traces_validated_against_impl"] = n_ok
    run.cov["trusted_base"] += ["harness/c19.py map generator, alternative extraction (by rendering, as amoco compares expressions)"]
    run.assumptions += ["path conditions are applied by the implementation (mapper.assume) before the comparison; the model starts after that step",
                        "the complexity measure is not modelled: threshold cases are checked by the membership oracle only"]
    return run


def replay(path):
    print(json.dumps(json.load(open(path))["replay"], indent=1)[:3000])
    return 1
