#!/bin/bash
# usage: coqshow.sh file.v LINE  -> compiles a copy truncated before LINE with "Show." appended
f=$1; n=$2
d=$(dirname $f); b=$(basename $f .v)
head -n $((n-1)) $f > $d/${b}_show.v
echo "Show. Abort." >> $d/${b}_show.v
(cd /verif/coq && timeout 120 coqc -q -Q . Amoco ${f#/verif/coq/}_x 2>/dev/null; timeout 120 coqc -q -Q . Amoco $d/${b}_show.v 2>&1 | tail -${3:-40})
rm -f $d/${b}_show.v $d/${b}_show.vo $d/${b}_show.glob $d/.${b}_show.aux $d/${b}_show.vos $d/${b}_show.vok
