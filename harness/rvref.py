# Python mirror of coq/C06/RV.v (reference interpreter written from the RISC-V unprivileged ISA manual).  Used to explain
# mismatches (which field / which register) and to generate structured words; the Coq interpreter, evaluated by
# vm_compute on the same cases, is the arbiter - a disagreement between this file and RV.v is a harness error.
import random


def bits(w, lo, n):
    return (w >> lo) & ((1 << n) - 1)


def sext(v, n):
    return v if v < (1 << (n - 1)) else v - (1 << n)


def imm_i(w):
    return sext(bits(w, 20, 12), 12)


def imm_s(w):
    return sext(bits(w, 25, 7) * 32 + bits(w, 7, 5), 12)


def imm_b(w):
    return sext(bits(w, 31, 1) * 4096 + bits(w, 7, 1) * 2048 + bits(w, 25, 6) * 32 + bits(w, 8, 4) * 2, 13)


def imm_u(w):
    return sext(bits(w, 12, 20) * 4096, 32)


def imm_j(w):
    return sext(bits(w, 31, 1) * 1048576 + bits(w, 12, 8) * 4096 + bits(w, 20, 1) * 2048 + bits(w, 21, 10) * 2, 21)


def alu(xlen, f3, alt, a, b):
    M = (1 << xlen) - 1
    sh = b & (63 if xlen == 64 else 31)
    sa, sb = sext(a, xlen), sext(b, xlen)
    if f3 == 0:
        return (a - b) & M if alt else (a + b) & M
    if f3 == 1:
        return (a << sh) & M
    if f3 == 2:
        return 1 if sa < sb else 0
    if f3 == 3:
        return 1 if a < b else 0
    if f3 == 4:
        return a ^ b
    if f3 == 5:
        return (sa >> sh) & M if alt else a >> sh
    if f3 == 6:
        return a | b
    return a & b


def aluw(f3, alt, a, b):
    a32 = a & 0xFFFFFFFF
    sh = b & 31
    if f3 == 0:
        r = (a32 - b) & 0xFFFFFFFF if alt else (a32 + b) & 0xFFFFFFFF
    elif f3 == 1:
        r = (a32 << sh) & 0xFFFFFFFF
    else:
        r = (sext(a32, 32) >> sh) & 0xFFFFFFFF if alt else a32 >> sh
    return sext(r, 32) & ((1 << 64) - 1)


def step(xlen, w, regs, pc, mem):
    """regs: list of 32 (regs[0] ignored), mem: dict addr -> byte.  Returns (regs', pc', stores, name) or None."""
    M = (1 << xlen) - 1
    opc, rd, f3, rs1, rs2, f7 = bits(w, 0, 7), bits(w, 7, 5), bits(w, 12, 3), bits(w, 15, 5), bits(w, 20, 5), bits(w, 25, 7)
    a = 0 if rs1 == 0 else regs[rs1]
    b = 0 if rs2 == 0 else regs[rs2]
    nxt = (pc + 4) & M
    R = list(regs)

    def setr(v):
        if rd:
            R[rd] = v & M
        return R
    if opc == 55:
        return setr(imm_u(w)), nxt, [], "LUI"
    if opc == 23:
        return setr(pc + imm_u(w)), nxt, [], "AUIPC"
    if opc == 111:
        return setr(nxt), (pc + imm_j(w)) & M, [], "JAL"
    if opc == 103:
        if f3:
            return None
        return setr(nxt), ((a + imm_i(w)) & M) & ~1, [], "JALR"
    if opc == 99:
        sa, sb = sext(a, xlen), sext(b, xlen)
        t = {0: a == b, 1: a != b, 4: sa < sb, 5: sa >= sb, 6: a < b, 7: a >= b}.get(f3)
        if t is None:
            return None
        return R, ((pc + imm_b(w)) & M) if t else nxt, [], {0: "BEQ", 1: "BNE", 4: "BLT", 5: "BGE", 6: "BLTU", 7: "BGEU"}[f3]
    if opc == 3:
        addr = (a + imm_i(w)) & M
        kinds = {0: (1, True, "LB"), 1: (2, True, "LH"), 2: (4, True, "LW"), 4: (1, False, "LBU"), 5: (2, False, "LHU")}
        if xlen == 64:
            kinds.update({3: (8, True, "LD"), 6: (4, False, "LWU")})
        if f3 not in kinds:
            return None
        n, sg, name = kinds[f3]
        v = 0
        for k in range(n):
            if ((addr + k) & M) not in mem and (addr + k) not in mem:
                return None
            v |= mem.get(addr + k) << (8 * k)
        return setr(sext(v, 8 * n) if sg else v), nxt, [], name
    if opc == 35:
        addr = (a + imm_s(w)) & M
        n = {0: 1, 1: 2, 2: 4}.get(f3)
        if f3 == 3 and xlen == 64:
            n = 8
        if n is None:
            return None
        return R, nxt, [(addr + k, (b >> (8 * k)) & 255) for k in range(n)], {1: "SB", 2: "SH", 4: "SW", 8: "SD"}[n]
    if opc == 19:
        sb_ = 6 if xlen == 64 else 5
        if f3 in (1, 5):
            hi = bits(w, 20 + sb_, 12 - sb_)
            alt = hi == (16 if xlen == 64 else 32)
            if hi == 0 or (alt and f3 == 5):
                return setr(alu(xlen, f3, alt, a, bits(w, 20, sb_))), nxt, [], {1: "SLLI", 5: "SRAI" if alt else "SRLI"}[f3]
            return None
        return setr(alu(xlen, f3, False, a, imm_i(w) & M)), nxt, [], {0: "ADDI", 2: "SLTI", 3: "SLTIU", 4: "XORI", 6: "ORI", 7: "ANDI"}[f3]
    if opc == 51:
        names = {0: "ADD", 1: "SLL", 2: "SLT", 3: "SLTU", 4: "XOR", 5: "SRL", 6: "OR", 7: "AND"}
        if f7 == 0:
            return setr(alu(xlen, f3, False, a, b)), nxt, [], names[f3]
        if f7 == 32 and f3 in (0, 5):
            return setr(alu(xlen, f3, True, a, b)), nxt, [], {0: "SUB", 5: "SRA"}[f3]
        return None
    if opc == 27 and xlen == 64:
        if f3 == 0:
            return setr(aluw(0, False, a, imm_i(w) & 0xFFFFFFFF)), nxt, [], "ADDIW"
        if f3 == 1 and f7 == 0:
            return setr(aluw(1, False, a, rs2)), nxt, [], "SLLIW"
        if f3 == 5 and f7 == 0:
            return setr(aluw(5, False, a, rs2)), nxt, [], "SRLIW"
        if f3 == 5 and f7 == 32:
            return setr(aluw(5, True, a, rs2)), nxt, [], "SRAIW"
        return None
    if opc == 59 and xlen == 64:
        if f7 == 0 and f3 in (0, 1, 5):
            return setr(aluw(f3, False, a, b & 0xFFFFFFFF)), nxt, [], {0: "ADDW", 1: "SLLW", 5: "SRLW"}[f3]
        if f7 == 32 and f3 in (0, 5):
            return setr(aluw(f3, True, a, b & 0xFFFFFFFF)), nxt, [], {0: "SUBW", 5: "SRAW"}[f3]
        return None
    if opc == 15:
        return R, nxt, [], "FENCE"
    if opc == 115 and w in (115, 1048691):
        return R, nxt, [], "ECALL" if w == 115 else "EBREAK"
    return None


FORMS = {
    "LUI": (55, None), "AUIPC": (23, None), "JAL": (111, None), "JALR": (103, 0),
    "BEQ": (99, 0), "BNE": (99, 1), "BLT": (99, 4), "BGE": (99, 5), "BLTU": (99, 6), "BGEU": (99, 7),
    "LB": (3, 0), "LH": (3, 1), "LW": (3, 2), "LBU": (3, 4), "LHU": (3, 5), "SB": (35, 0), "SH": (35, 1), "SW": (35, 2),
    "ADDI": (19, 0), "SLTI": (19, 2), "SLTIU": (19, 3), "XORI": (19, 4), "ORI": (19, 6), "ANDI": (19, 7),
    "SLLI": (19, 1), "SRLI": (19, 5), "SRAI": (19, 5),
    "ADD": (51, 0), "SUB": (51, 0), "SLL": (51, 1), "SLT": (51, 2), "SLTU": (51, 3), "XOR": (51, 4), "SRL": (51, 5), "SRA": (51, 5),
    "OR": (51, 6), "AND": (51, 7), "FENCE": (15, 0), "ECALL": (115, 0), "EBREAK": (115, 0)}
FORMS64 = {"LD": (3, 3), "LWU": (3, 6), "SD": (35, 3), "ADDIW": (27, 0), "SLLIW": (27, 1), "SRLIW": (27, 5), "SRAIW": (27, 5),
           "ADDW": (59, 0), "SUBW": (59, 0), "SLLW": (59, 1), "SRLW": (59, 5), "SRAW": (59, 5)}


def gen_word(rng, xlen, name):
    forms = dict(FORMS)
    if xlen == 64:
        forms.update(FORMS64)
    opc, f3 = forms[name]
    w = rng.getrandbits(32)
    w = (w & ~0x7F) | opc
    if f3 is not None:
        w = (w & ~(7 << 12)) | (f3 << 12)
    sb_ = 6 if xlen == 64 else 5
    if name in ("SLLI", "SRLI"):
        w &= ~(((1 << (12 - sb_)) - 1) << (20 + sb_))
    if name == "SRAI":
        w &= ~(((1 << (12 - sb_)) - 1) << (20 + sb_))
        w |= 1 << 30
    if name in ("ADD", "SLL", "SLT", "SLTU", "XOR", "SRL", "OR", "AND", "ADDW", "SLLW", "SRLW", "SLLIW", "SRLIW"):
        w &= ~(0x7F << 25)
    if name in ("SUB", "SRA", "SUBW", "SRAW", "SRAIW"):
        w = (w & ~(0x7F << 25)) | (32 << 25)
    if name == "ECALL":
        w = 115
    if name == "EBREAK":
        w = 1048691
    if rng.random() < 0.08:
        w &= ~(31 << 7)          # rd = x0
    if rng.random() < 0.08:
        w &= ~(31 << 15)         # rs1 = x0
    if rng.random() < 0.1:
        w = (w & ~(31 << 20)) | (bits(w, 15, 5) << 20)     # rs2 = rs1
    return w & 0xFFFFFFFF


def names(xlen):
    return sorted(FORMS) + (sorted(FORMS64) if xlen == 64 else [])


def boundary(rng, xlen):
    M = (1 << xlen) - 1
    return rng.choice([0, 1, 2, M, M - 1, 1 << (xlen - 1), (1 << (xlen - 1)) - 1, (1 << (xlen - 1)) + 1, 0x7FFFFFFF, 0x80000000, 0xFFFFFFFF,
                       rng.getrandbits(xlen), rng.getrandbits(xlen), rng.getrandbits(xlen), rng.getrandbits(5), rng.getrandbits(12)]) & M
