# Trace-driven correspondence between the real disassembler and the Gallina call skeleton (Amoco.Dec):
# ispec.decode is wrapped (in this process only) to record, for every call, (spec, len(bytestring), result);
# the recorded results drive the model's abstract setup functions (Amoco.Dec.Corr.hook_of_trace).
import common
import isa
import c04
from common import zlit, clist

_trace = None
_installed = False


def install(core):
    global _installed
    if _installed:
        return
    orig = core.ispec.decode

    def traced(self, istr, endian=1, i=None, iclass=core.instruction):
        tr = _trace
        if tr is None:
            return orig(self, istr, endian, i, iclass)
        pend = len(i.bytes) if i is not None else 0
        try:
            r = orig(self, istr, endian, i, iclass)
        except core.DecodeError:
            tr.append((id(self), len(istr), "err", 0))
            raise
        except core.InstructionError:
            tr.append((id(self), len(istr), "rej", 0))
            raise
        except BaseException:
            tr.append((id(self), len(istr), "raise", 0))
            raise
        tr.append((id(self), len(istr), "ok", len(r.bytes) - pend - self.fix.size // 8))
        return r

    core.ispec.decode = traced
    _installed = True


def traced_call(dis, b):
    """-> (summary (kind,len,spec object|None,pending_left), trace)"""
    global _trace
    _trace = []
    try:
        try:
            i = dis(b)
            out = (0, 0, None) if i is None else (1, len(i.bytes), i.spec)
        except RecursionError:
            out = (3, 0, None)
        except Exception:
            out = (2, 0, None)
        tr = _trace
    finally:
        _trace = None
    return out + (0 if isa.get_pending(dis) is None else 1,), tr


def coq_case(b, out, tr, ids):
    ents = []
    tried = []
    for (sid, ln, kind, extra) in tr:
        n = ids.get(sid, -7)
        if ln == len(b):
            tried.append(str(n))
        res = {"err": "TErr", "rej": "TRej", "raise": "TRaise"}.get(kind) or "(TOk %s)" % zlit(extra)
        ents.append("(%d, %d, %s)" % (n, ln, res))
    kind, ln, sp, pend = out
    sidv = ids.get(id(sp), -7) if sp is not None else -1
    return "(%s, %s, %s, (%d, %d, %s, %d))" % (clist([str(x) for x in b]), clist(ents), clist(tried), kind, ln, zlit(sidv), pend)


def coq_file(name, dis, k, specs, rows):
    ids = {id(s): n for n, s in enumerate(specs)}
    e = dis.endian()
    lines = ["From Coq Require Import ZArith List Bool.", "Import ListNotations.",
             "Require Import Amoco.C04.Model Amoco.Dec.Disasm Amoco.Dec.Corr.", "Open Scope Z_scope."]
    for n, s in enumerate(specs):
        lines.append("Definition s%d := Spec %d %d %s %s." % (n, n, s.fix.size, zlit(s.mask.ival), zlit(s.fix.ival)))
    lines.append("Definition t : tree := %s." % c04.dump_tree(dis.specs[k], ids))
    pf = [str(n) for n, s in enumerate(specs) if s.pfx is True]
    lines.append("Definition ispfx (s : spec) : bool := existsb (Z.eqb (sid s)) %s." % clist(pf))
    lines.append("Definition cases : list dcase := [\n%s\n]." % ";\n".join(rows))
    lines.append("Eval vm_compute in (bad_from (check_dcase %s %d t ispfx) 0 cases)." % (zlit(e), dis.maxlen * 8))
    return "\n".join(lines) + "\n", ids


def run_model(run, groups, label):
    """groups: {(name,k): (dis, specs, [(bytes, out, trace)])}.  Evaluates the skeleton in Coq and reports mismatches."""
    texts = []
    meta = {}
    for (name, k), (dis, specs, cases) in sorted(groups.items()):
        if not cases:
            continue
        ids = {id(s): n for n, s in enumerate(specs)}
        usable = []
        for (b, out, tr) in cases:
            # xdata suffix readers run after decode and are outside the skeleton model
            if out[2] is not None and out[2].pfx == "xdata":
                continue
            if out[0] == 2 and tr and tr[-1][2] == "ok":
                continue   # raised after a successful decode (xdata)
            usable.append((b, out, tr))
        rows = [coq_case(b, out, tr, ids) for (b, out, tr) in usable]
        nm = "%s_%s_m%d" % (label, name, k)
        txt, _ = coq_file(nm, dis, k, specs, rows)
        texts.append((nm, txt))
        meta[nm] = (name, k, usable)
    res = common.coq_eval_many(run.work / "model", texts, timeout=900)
    total = 0
    for nm, (rc, out) in sorted(res.items()):
        name, k, usable = meta[nm]
        lists = common.parse_nat_list(out)
        if rc != 0 or len(lists) != 1:
            run.violation("model-eval|" + nm, "model evaluation failed", {"theorem_or_correspondence": "Dec correspondence " + nm, "output": out[-1200:]}, found_input=False)
            continue
        total += len(usable)
        for idx in lists[0][:2]:
            b, o, tr = usable[idx]
            run.violation("model-impl-correspondence|%s_m%d" % (name, k),
                          "call skeleton model (Amoco.Dec.Disasm.api) and disassembler.__call__ disagree on %s" % bytes(b).hex(),
                          {"theorem_or_correspondence": "Amoco.Dec.Corr.check_dcase", "isa": name, "mode": k, "bytes": bytes(b).hex(),
                           "observed(kind,len,pending)": [o[0], o[1], o[3]], "decode_calls": len(tr)}, found_input=False)
    run.cov["model_cases_evaluated_in_coq"] = run.cov.get("model_cases_evaluated_in_coq", 0) + total
    run.cov["traces_validated_against_impl"] = run.cov.get("traces_validated_against_impl", 0) + total
    return total
