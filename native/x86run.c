/* Executes one x86-64 instruction natively on a given register / flag state (C06: "the processor itself").
   state: 16 general registers (rax rcx rdx rbx rsp rbp rsi rdi r8..r15; rsp is ignored and keeps the real stack),
   rflags (status flags only are loaded: CF PF AF ZF SF OF; DF stays 0).  The instruction must not touch rsp, must
   not transfer control, and memory operands must point into the scratch buffer (allocated below 2 GB so that
   address-size prefixes work).  Faults (SIGSEGV, SIGFPE, SIGILL, SIGBUS, SIGTRAP) are caught and reported. */
#define _GNU_SOURCE
#include <stdint.h>
#include <string.h>
#include <signal.h>
#include <setjmp.h>
#include <sys/mman.h>

struct state { uint64_t r[16]; uint64_t rflags; };
static unsigned char *code = 0;
static unsigned char *scratch = 0;
static sigjmp_buf jb;
static void handler(int sig) { siglongjmp(jb, sig); }

unsigned char *get_scratch(void) {
  if (!scratch) {
    scratch = mmap((void*)0x10000000, 1 << 16, PROT_READ | PROT_WRITE, MAP_PRIVATE | MAP_ANONYMOUS | MAP_32BIT, -1, 0);
    if (scratch == MAP_FAILED) scratch = 0;
  }
  return scratch;
}

static int emit(unsigned char *p, const unsigned char *b, int n) { memcpy(p, b, n); return n; }

int run(const unsigned char *ins, int len, struct state *st) {
  if (!code) {
    code = mmap(0, 4096, PROT_READ | PROT_WRITE | PROT_EXEC, MAP_PRIVATE | MAP_ANONYMOUS, -1, 0);
    if (code == MAP_FAILED) { code = 0; return -1; }
  }
  unsigned char *p = code;
  /* push callee-saved: rbx rbp r12 r13 r14 r15 */
  p += emit(p, (unsigned char[]){0x53, 0x55, 0x41, 0x54, 0x41, 0x55, 0x41, 0x56, 0x41, 0x57}, 10);
  /* push rdi (state pointer) ; mov rax, rdi */
  p += emit(p, (unsigned char[]){0x57, 0x48, 0x89, 0xf8}, 4);
  /* push qword [rax+128] ; popfq */
  p += emit(p, (unsigned char[]){0xff, 0xb0, 0x80, 0x00, 0x00, 0x00, 0x9d}, 7);
  /* load rcx rdx rbx rbp rsi rdi r8..r15 from [rax + 8*i] (not rsp), then rax */
  static const unsigned char ld[][4] = {
    {0x48, 0x8b, 0x48, 0x08}, {0x48, 0x8b, 0x50, 0x10}, {0x48, 0x8b, 0x58, 0x18}, {0x48, 0x8b, 0x68, 0x28},
    {0x48, 0x8b, 0x70, 0x30}, {0x48, 0x8b, 0x78, 0x38}, {0x4c, 0x8b, 0x40, 0x40}, {0x4c, 0x8b, 0x48, 0x48},
    {0x4c, 0x8b, 0x50, 0x50}, {0x4c, 0x8b, 0x58, 0x58}, {0x4c, 0x8b, 0x60, 0x60}, {0x4c, 0x8b, 0x68, 0x68},
    {0x4c, 0x8b, 0x70, 0x70}, {0x4c, 0x8b, 0x78, 0x78}};
  for (int i = 0; i < 14; i++) p += emit(p, ld[i], 4);
  p += emit(p, (unsigned char[]){0x48, 0x8b, 0x00}, 3);                /* mov rax, [rax] */
  p += emit(p, ins, len);
  p += emit(p, (unsigned char[]){0x48, 0x87, 0x04, 0x24}, 4);          /* xchg rax, [rsp]  (no flags) */
  static const unsigned char sv[][4] = {
    {0x48, 0x89, 0x48, 0x08}, {0x48, 0x89, 0x50, 0x10}, {0x48, 0x89, 0x58, 0x18}, {0x48, 0x89, 0x68, 0x28},
    {0x48, 0x89, 0x70, 0x30}, {0x48, 0x89, 0x78, 0x38}, {0x4c, 0x89, 0x40, 0x40}, {0x4c, 0x89, 0x48, 0x48},
    {0x4c, 0x89, 0x50, 0x50}, {0x4c, 0x89, 0x58, 0x58}, {0x4c, 0x89, 0x60, 0x60}, {0x4c, 0x89, 0x68, 0x68},
    {0x4c, 0x89, 0x70, 0x70}, {0x4c, 0x89, 0x78, 0x78}};
  for (int i = 0; i < 14; i++) p += emit(p, sv[i], 4);
  /* pushfq ; pop qword [rax+128] ; pop rcx (old rax) ; mov [rax], rcx */
  p += emit(p, (unsigned char[]){0x9c, 0x8f, 0x80, 0x80, 0x00, 0x00, 0x00, 0x59, 0x48, 0x89, 0x08}, 11);
  /* pop callee-saved ; ret */
  p += emit(p, (unsigned char[]){0x41, 0x5f, 0x41, 0x5e, 0x41, 0x5d, 0x41, 0x5c, 0x5d, 0x5b, 0xc3}, 11);
  struct sigaction sa, old[5];
  int sigs[5] = {SIGSEGV, SIGFPE, SIGILL, SIGBUS, SIGTRAP};
  memset(&sa, 0, sizeof sa);
  sa.sa_handler = handler;
  sigemptyset(&sa.sa_mask);
  sa.sa_flags = SA_NODEFER;
  for (int i = 0; i < 5; i++) sigaction(sigs[i], &sa, &old[i]);
  int rc = sigsetjmp(jb, 1);
  if (rc == 0) {
    st->rflags = (st->rflags & 0x8d5) | 0x202;      /* status flags + IF + reserved bit 1 */
    ((void (*)(struct state *))code)(st);
  }
  for (int i = 0; i < 5; i++) sigaction(sigs[i], &old[i], 0);
  return rc;
}
